"""C28 — Discovery backoff stays within its configured bounds (p2panda-net/src/discovery/backoff.rs)."""
import struct

ID = "C28"
HARNESS_PKG = "h_net_a"
HARNESS_ARGS = ["c28"]
COQ_IMPORTS = "From PV Require Import Model.Backoff Oracle.C28."
COQ_SHARD = 40
TECHNIQUE = ("Coq proof (invariant initial <= value <= max over arbitrary operation sequences and an arbitrary random generator; "
             "step lemmas for the reset interval) + differential correspondence of the Gallina model, including rand's uniform "
             "sampler on the seed's ChaCha20 stream, with the real Backoff driven through cfg-gated hooks")
LEVEL_TEXT = ("Proved in Coq for every configuration with initial <= max, every generator (no assumption on its answers, hence every seed), "
              "every sequence of increment/reset/time-advance operations, unbounded: C28_bounds (after construction and after every operation "
              "initial <= value <= max), C28_resets_after_interval (an increment once reset_after has elapsed, and reset() at any time, return "
              "to the initial value and restart the interval), C28_no_reset_before_interval, C28_draws_in_configured_ranges (for generators "
              "answering in range), C28_rand_sampler_in_range (the model of rand's Canon sampler is such a generator), "
              "C28_asis_late_clamp_refuted (record of the defect that was repaired). The model is tied to backoff.rs on every run: the "
              "real Backoff (hook: constructor from explicit config + ChaCha20 seed, value/reset_after accessors, clock shift) executes the "
              "case's operations; every value and every drawn reset interval must equal the model's, which replays the same seed's key stream "
              "through the modelled sampler; the oracle is evaluated on the implementation's observation.")
LEVEL_NOTE = ("Modelled, not verified: rand 0.10 UniformInt<u128> sampling and the ChaCha20 key stream (python) — confirmed by exact agreement of "
              "every draw; std::time::Instant (the hook shifts last_reset_at; the code sees the nominal elapsed time plus the microseconds the case "
              "takes, cases avoid the last second before the deadline); durations are whole milliseconds. Correspondence is differential testing.")
ASSUMPTIONS = ["configuration durations are whole milliseconds below 2^64 ms; Duration addition does not overflow",
               "min_increment < max_increment and min_reset < max_reset (otherwise rand panics: 'cannot sample empty range'; the construction panic is observed and modelled)",
               "initial_value <= max_value (otherwise the two bounds of the property contradict each other)",
               "real time spent inside one case is far below one second (the clock is shifted, not frozen)"]
TRUSTED = ["modelled not verified: rand's uniform u128 sampler (Canon's method) and ChaCha20 (python implementation feeds the model the key stream)",
           "hook Backoff::verif_shift_clock moves last_reset_at back by d: equivalent to d passing for `elapsed()`"]
RULE = ("quick: ~370 cases: default configuration with random seeds and operation sequences (length <= 60; increments dominate; time advances "
        "0..250 s; deadline-relative advances at -60 s..-1 s and 0..+60 s; resets), custom configurations (deterministic step and interval, "
        "initial = max, initial > 0, tiny and huge ranges, zero reset interval), construction panics; thorough: ~2400 cases, length <= 300. "
        "non-trivial = at least 3 increments and (the maximum is reached or a reset by elapsed interval happens)")

DEFAULT = [0, 1000, 5000, 30000, 60000, 180000]


# ---- ChaCha20 key stream as rand_chacha::ChaCha20Rng produces it (64-bit counter, stream 0) -----
def _rotl(x, n):
    return ((x << n) & 0xFFFFFFFF) | (x >> (32 - n))


def _qr(s, a, b, c, d):
    s[a] = (s[a] + s[b]) & 0xFFFFFFFF; s[d] = _rotl(s[d] ^ s[a], 16)
    s[c] = (s[c] + s[d]) & 0xFFFFFFFF; s[b] = _rotl(s[b] ^ s[c], 12)
    s[a] = (s[a] + s[b]) & 0xFFFFFFFF; s[d] = _rotl(s[d] ^ s[a], 8)
    s[c] = (s[c] + s[d]) & 0xFFFFFFFF; s[b] = _rotl(s[b] ^ s[c], 7)


def chacha20_words64(seed, n):
    """First n u64 outputs (`next_u64`: two consecutive u32 words, low first)."""
    key = list(struct.unpack("<8I", bytes(seed)))
    out32 = []
    ctr = 0
    while len(out32) < 2 * n:
        init = [0x61707865, 0x3320646E, 0x79622D32, 0x6B206574] + key + [ctr & 0xFFFFFFFF, ctr >> 32, 0, 0]
        s = list(init)
        for _ in range(10):
            _qr(s, 0, 4, 8, 12); _qr(s, 1, 5, 9, 13); _qr(s, 2, 6, 10, 14); _qr(s, 3, 7, 11, 15)
            _qr(s, 0, 5, 10, 15); _qr(s, 1, 6, 11, 12); _qr(s, 2, 7, 8, 13); _qr(s, 3, 4, 9, 14)
        out32 += [(s[i] + init[i]) & 0xFFFFFFFF for i in range(16)]
        ctr += 1
    return [out32[2 * i] | (out32[2 * i + 1] << 32) for i in range(n)]


# ---- generators -------------------------------------------------------------------------------
def _ops(rng, cfg, n):
    c = cfg or DEFAULT
    span = max(1000, c[5])
    ops = []
    burst = 0
    for _ in range(n):
        r = rng.random()
        if burst > 0:
            ops.append(["I"]); burst -= 1
        elif r < 0.55:
            ops.append(["I"])
            if rng.random() < 0.2:
                burst = rng.randint(3, 40)
        elif r < 0.65:
            ops.append(["R"])
        elif r < 0.82:
            ops.append(["A", rng.choice([0, 1, 1000, rng.randint(0, span // 4), rng.randint(0, span + span // 3)])])
        else:
            ops.append(["D", rng.choice([0, 0, 1, 1000, 60000, -1000, -1001, -5000, -60000, rng.randint(0, 30000), -rng.randint(1000, span)])])
            ops.append(["I"])
    return ops


def _custom(rng):
    """Custom configurations: [init, min_inc, max_inc, max, min_reset, max_reset] (ms)."""
    k = rng.randrange(8)
    if k == 0:      # deterministic step and interval (ranges of width 1), whole seconds
        step = rng.choice([1000, 2000, 7000])
        init = rng.choice([0, 1000, 3000])
        return [init, step, step + 1, init + rng.choice([0, 1, 2, 5]) * step + rng.choice([0, 500]), rng.choice([0, 1000, 5000]) , 0], True
    if k == 1:      # initial = max: never moves
        v = rng.choice([0, 5000])
        return [v, 1, 10, v, 10000, 50000], False
    if k == 2:      # one huge step reaches the maximum at once
        return [100, 50000, 900000, 30000, 60000, 180000], False
    if k == 3:      # tiny steps
        return [0, 1, 3, rng.choice([5, 20]), 20000, 90000], False
    if k == 4:      # zero reset interval: every increment resets
        return [rng.choice([0, 7]), 1000, 5000, 30000, 0, 1], False
    if k == 5:      # large values
        return [10 ** 9, 10 ** 6, 10 ** 7, 10 ** 9 + 5 * 10 ** 7, 10 ** 10, 10 ** 11], False
    if k == 6:      # initial > 0 with the default steps
        return [2500, 1000, 5000, 30000, 60000, 180000], False
    return [rng.randint(0, 3000), rng.randint(1, 2000), rng.randint(2001, 9000), rng.randint(3000, 40000), rng.randint(0, 50000), rng.randint(60000, 200000)], False


def gen(tier, rng):
    n = 360 if tier == "quick" else 2400
    lmax = 60 if tier == "quick" else 300
    for i in range(n):
        seed = [rng.randrange(256) for _ in range(32)]
        if i % 20 == 0:
            seed = [i % 256] * 32
        r = rng.random()
        if r < 0.5:
            cfg, whole = None, False
        else:
            cfg, whole = _custom(rng)
            if whole:
                cfg[5] = cfg[4] + 1
        if rng.random() < 0.03:            # construction panics: empty reset range
            cfg = list(cfg or DEFAULT)
            cfg[5] = cfg[4] - rng.choice([0, 1]) if cfg[4] > 0 else 0
            yield {"cfg": cfg, "seed": seed, "ops": [["I"]]}
            continue
        ops = _ops(rng, cfg, rng.randint(0, lmax))
        if whole:   # keep the nominal clock on whole seconds: the interval is a whole second too
            ops = [[o[0], (o[1] // 1000) * 1000] if o[0] in ("A", "D") else o for o in ops]
        yield {"cfg": cfg, "seed": seed, "ops": ops}
    # every increment count up to saturation on the default configuration, fixed seeds
    for s in range(8 if tier == "quick" else 64):
        yield {"cfg": None, "seed": [s] * 32, "ops": [["I"]] * 40}


def harness_line(case):
    cfg = "default" if case["cfg"] is None else ",".join(str(x) for x in case["cfg"])
    ops = ",".join(o[0] + (str(o[1]) if len(o) > 1 else "") for o in case["ops"]) or "-"
    return "%s %s %s" % (cfg, bytes(case["seed"]).hex(), ops)


def _cfg(case):
    c = case["cfg"] or DEFAULT
    return ("{| initial_value := %d; min_increment := %d; max_increment := %d; max_value := %d; min_reset := %d; max_reset := %d |}%%N"
            % tuple(c))


def _op(o):
    if o[0] == "I":
        return "Inc"
    if o[0] == "R":
        return "Reset"
    if o[0] == "A":
        return "Adv %d%%N" % o[1]
    return "Deadline (%d)%%Z" % o[1]


def _opl(case):
    return "[" + ";".join(_op(o) for o in case["ops"]) + "]"


def coq_model(case):
    # one draw in new(), at most two per increment (step + reset interval), one per reset; a draw
    # takes two u64 words (four if the sampler retries, which needs a range near 2^128)
    ndraws = 1 + sum(2 if o[0] == "I" else 1 for o in case["ops"] if o[0] in ("I", "R"))
    words = chacha20_words64(case["seed"], 2 * ndraws + 4)
    return "model_line (%s) [%s]%%N %s" % (_cfg(case), ";".join(str(w) for w in words), _opl(case))


def _fields(impl):
    return dict(t.split("=", 1) for t in impl.split(" ") if "=" in t)


def _pair(t):
    a, b = t.split(":")
    return "(%d%%N, %d%%N)" % (int(a), int(b))


def coq_oracle(case, impl):
    if impl.startswith("PANIC"):
        c = case["cfg"] or DEFAULT
        return "true" if c[4] >= c[5] else "false"
    f = _fields(impl)
    obs = "[]" if f["ops"] == "-" else "[" + ";".join(_pair(t) for t in f["ops"].split(";")) + "]"
    return "check (%s) %s [%s]%%N %s %s" % (_cfg(case), _opl(case), ";".join(f["cfg"].split(",")), _pair(f["init"]), obs)


def _values(impl):
    f = _fields(impl)
    if "ops" not in f or f["ops"] == "-":
        return []
    return [tuple(int(x) for x in t.split(":")) for t in f["ops"].split(";") if ":" in t]


def nontrivial(case, impl):
    if impl.startswith("PANIC"):
        return False
    c = case["cfg"] or DEFAULT
    incs = sum(1 for o in case["ops"] if o[0] == "I")
    vals = _values(impl)
    reached_max = any(v >= c[3] for v, _ in vals) and c[0] < c[3]
    # a reset by elapsed interval: an increment after which the value is initial although it was above before
    reset_seen = False
    prev = c[0]
    for o, (v, _ra) in zip(case["ops"], vals):
        if o[0] == "I" and v == c[0] and prev > c[0]:
            reset_seen = True
        prev = v
    return incs >= 3 and (reached_max or reset_seen)


def shrink(case):
    ops = case["ops"]
    for i in range(len(ops)):
        yield dict(case, ops=ops[:i] + ops[i + 1:])
    if len(ops) > 4:
        yield dict(case, ops=ops[:len(ops) // 2])
    if case["cfg"] is not None:
        yield dict(case, cfg=None)


def distribution(cases, impl):
    kinds = {"default_config": 0, "custom_config": 0, "construction_panic": 0}
    opk = {"I": 0, "R": 0, "A": 0, "D": 0}
    reached_max = resets = 0
    for i, c in enumerate(cases):
        o = impl.get(i, "")
        if o.startswith("PANIC"):
            kinds["construction_panic"] += 1
            continue
        kinds["default_config" if c["cfg"] is None else "custom_config"] += 1
        for op in c["ops"]:
            opk[op[0]] += 1
        cfg = c["cfg"] or DEFAULT
        vals = _values(o)
        if any(v >= cfg[3] for v, _ in vals):
            reached_max += 1
        prev = cfg[0]
        for op, (v, _ra) in zip(c["ops"], vals):
            if op[0] == "I" and v == cfg[0] and prev > cfg[0]:
                resets += 1
                break
            prev = v
    return {"configs": kinds, "ops": opk, "cases_reaching_max": reached_max, "cases_with_interval_reset": resets,
            "max_ops": max(len(c["ops"]) for c in cases)}
