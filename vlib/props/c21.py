"""C21 — Sync sessions terminate for any data volume and transport buffer size."""
from . import _logsync as L

ID = "C21"
HARNESS_PKG = "h_logsync"
HARNESS_ARGS = ["c21"]
HARNESS_PROCS = 16
HARNESS_TIMEOUT = 1500
COQ_IMPORTS = "From PV Require Import Model.Dedup Model.LogSync Lib.LogSyncShow Oracle.C20 Oracle.C21."
COQ_SHARD = 20
NO_ESCALATE = True     # escalation would run hundreds of predicted-deadlock cases (one deadline each)
FINDING = "both_sides_exceed_window"
TECHNIQUE = ("Coq proofs over the joint model of two LogSync machines connected by two futures::mpsc::channel(c) queues (sender parked when "
             "its queue holds more than c messages; send returns after the receiver dequeued): reachable-state invariant for every "
             "schedule, deadlock freedom when one side's sync-phase messages fit into c >= 1, decreasing measure (all runs finite), and a "
             "deadlock witness family for every c; + differential correspondence: real sessions over futures::mpsc::channel(c) with a deadline")
LEVEL_TEXT = ("The property as stated is false: C21_refuted proves, for every buffer size c, replicas and a schedule of the joint model ending "
              "with both sides parked in sink.send (each side c+1 operations the other lacks; for c = 0 the two Have messages block each other). "
              "C21_outside_known proves for all replicas, configurations and schedules that with c >= 1 and at least one side whose sync-phase "
              "messages (operations + Done) number at most c no reachable state is a deadlock, and C21_runs_finite that no run is longer than a "
              "bound fixed by the replicas - so every maximal run ends with both sides finished. All closed under the global context. The "
              "model is tied to the code on every run: real LogSync sessions over futures::mpsc::channel(c), c = 0..8, volumes around the "
              "boundary on both sides, each case repeated (tokio's select! picks a random ready arm) under a deadline; the model's "
              "classification (may-deadlock / terminates) must match: 'terminates' cases must complete in every attempt.")
LEVEL_NOTE = ("KNOWN FINDING both_sides_exceed_window (open): both sides send a whole author's logs and Done inside one select! arm without "
              "reading; over a transport whose window is smaller than what both sides have to send they block each other for ever. "
              "Partial: the real transport (QUIC streams + codec, p2panda-net) is not modelled - the model and the harness use "
              "futures::mpsc::channel(c) as the bounded transport; a predicted deadlock is observed as a timeout (no progress for 1.5-2 s, up to 6 "
              "attempts), a predicted termination as completion of every attempt. Trusted: Coq kernel + vm_compute; hand-written model; "
              "futures-channel parking semantics as modelled (checked by the boundary cases on every run); harness/python glue.")
ASSUMPTIONS = ["static stores during the session; both sides honest; one sender per channel direction (futures::mpsc::channel(c), window c + parked slot)",
               "a timeout within the deadline is taken as a deadlock; completion of all attempts as termination"]
TRUSTED = ["modelled not verified: futures-channel Sender::poll_ready/poll_flush parking, tokio select! arm choice, QUIC transport replaced by mpsc"]
RULE = ("quick: for c = 0..8 the boundary volumes on both sides (n-1/n/n+3 operations around n = c), mixed with overlapping prefixes, two-author sides and "
        "one-sided volumes; predicted-deadlock cases limited to 8 (each costs one deadline); + 5 long / pruned-prefix cases (a log of 100 with 0..79 pruned "
        "to an empty peer, prefixes of 64..300, ranges of 129..300 entries, c = 1..8, one side within c); thorough: full grid c = 0..8 x volumes 0..c+3 per side "
        "+ 150 random multi-author cases. non-trivial = at least one side has to send c or more sync-phase messages")


def rows(n, lo=0, size=500):
    return [[s, size] for s in range(lo, lo + n)]


def mk(c, na, nb, shared_a=0, shared_b=0, ms=1500, tries=6):
    """A owns author 0 (na rows, B already has the first shared_a), B owns author 1."""
    repa, repb = [], []
    if na:
        repa.append([0, 0, rows(na)])
    if shared_a:
        repb.append([0, 0, rows(shared_a)])
    if shared_b:
        repa.append([1, 0, rows(shared_b)])
    if nb:
        repb.append([1, 0, rows(nb)])
    return {"cap": c, "logs": [[0, [0]], [1, [0]]], "repa": sorted(repa), "repb": sorted(repb), "ms": ms, "tries": tries}


def sends(rep_x, rep_y, logs):
    """Number of operations X sends to Y (python mirror of expected_ops; the model line is the reference)."""
    dx, dy = L.rep_dict(rep_x), L.rep_dict(rep_y)
    n = 0
    for a, ls in logs:
        y_has_author = any(dy.get((a, l)) for l in ls)
        for l in ls:
            rx = dx.get((a, l), [])
            ry = dy.get((a, l), [])
            if not rx:
                continue
            if not y_has_author or not ry:
                n += len(rx)
            else:
                hy = max(s for s, _ in ry)
                n += len([1 for s, _ in rx if s > hy])
    return n


def msgs(case):
    a = sends(case["repa"], case["repb"], case["logs"])
    b = sends(case["repb"], case["repa"], case["logs"])
    return (a + 1 if a else 0), (b + 1 if b else 0)


def predicted_deadlock(case):
    a, b = msgs(case)
    c = case["cap"]
    return c == 0 or (a > c and b > c)


def long_cases(rng, tries):
    """Data volume in the other dimension: long logs and logs behind a long pruned prefix (a sender that
    walks a range in windows of 64 / 128 / 256 sequence numbers meets empty windows and window
    boundaries), one-sided or with a small other side, so that termination is guaranteed."""
    lg = [[0, [0]], [1, [0]]]
    yield {"cap": 8, "logs": lg, "repa": [[0, 0, rows(20, lo=80)]], "repb": [], "ms": 1500, "tries": tries}       # 100 entries, 0..79 pruned
    yield {"cap": 3, "logs": lg, "repa": [[1, 0, rows(2)]], "repb": [[0, 0, rows(12, lo=130)]], "ms": 1500, "tries": tries}
    yield {"cap": 4, "logs": lg, "repa": [[0, 0, rows(150)], [1, 0, rows(1)]], "repb": [[1, 0, rows(3)]], "ms": 1500, "tries": tries}
    yield {"cap": 1, "logs": lg, "repa": [[0, 0, rows(70, lo=rng.randint(64, 300))]], "repb": [[0, 0, rows(1)]], "ms": 1500, "tries": tries}
    yield {"cap": 2, "logs": lg, "repa": [], "repb": [[1, 0, rows(rng.randint(129, 300), lo=rng.choice([0, 257]))]], "ms": 1500, "tries": tries}


def gen(tier, rng):
    if tier == "quick":
        dl = 0
        for c in range(0, 9):
            cands = [mk(c, max(c - 1, 0), max(c - 1, 0)), mk(c, c + 3, max(c - 1, 0)), mk(c, max(c - 1, 0), c + 3),
                     mk(c, c + 5, 0), mk(c, 2 * c + 2, c + 1, shared_a=c + 4), mk(c, c, c), mk(c, c + 1, c + 3)]
            if c == 0:
                cands = [mk(0, 0, 0), mk(0, 2, 0)]       # every c = 0 session blocks on its Have
            for case in cands:
                if predicted_deadlock(case):
                    if dl >= 7 or c in (3, 5, 6, 8):
                        continue
                    dl += 1
                yield case
        # two authors on one side: the arms add up
        yield {"cap": 4, "logs": [[0, [0]], [1, [0]], [2, [0, 1]]], "repa": [[0, 0, rows(2)], [2, 0, rows(1)], [2, 1, rows(1)]],
               "repb": [[1, 0, rows(9)]], "ms": 1500, "tries": 6}
        yield {"cap": 5, "logs": [[0, [0]], [1, [0]], [2, [0, 1]]], "repa": [[0, 0, rows(2)], [2, 0, rows(2)], [2, 1, rows(1)]],
               "repb": [[1, 0, rows(9)]], "ms": 1500, "tries": 6}
        for case in long_cases(rng, 2):
            yield case
        return
    for c in range(0, 9):
        for na in range(0, c + 4):
            for nb in range(0, c + 4):
                yield mk(c, na, nb, ms=2000)
    for _ in range(4):
        for case in long_cases(rng, 3):
            yield dict(case, ms=2000)
    for _ in range(150):
        c = rng.randint(1, 8)
        authors = sorted(rng.sample(range(0, 5), rng.randint(2, 4)))
        logs, repa, repb = [], [], []
        for a in authors:
            ls = sorted(rng.sample(range(0, 2), rng.randint(1, 2)))
            logs.append([a, ls])
            for l in ls:
                n = rng.randint(0, c + 2)
                side = rng.random()
                if n and side < 0.45:
                    repa.append([a, l, rows(n)])
                    k = rng.randint(0, n)
                    if k and rng.random() < 0.4:
                        repb.append([a, l, rows(k)])
                elif n and side < 0.9:
                    repb.append([a, l, rows(n)])
                    k = rng.randint(0, n)
                    if k and rng.random() < 0.4:
                        repa.append([a, l, rows(k)])
        yield {"cap": c, "logs": logs, "repa": repa, "repb": repb, "ms": 2000, "tries": 6}


def harness_line(case):
    return "logs=%s repa=%s repb=%s cap=%d ms=%d tries=%d" % (L.h_logs(case["logs"]), L.h_rep(case["repa"]), L.h_rep(case["repb"]),
                                                             case["cap"], case.get("ms", 1500), case.get("tries", 6))


def coq_model(case):
    return "model_line %d %s %s %s" % (case["cap"], L.g_logs(case["logs"]), L.g_replica(case["repa"]), L.g_replica(case["repb"]))


def coq_oracle(case, impl):
    return "check %s" % ("true" if impl.startswith("done") else "false")


def agree(case, impl, model):
    """The model says what is possible; the implementation must complete whenever the model says
    'terminates', and the python class used by `known` must be the model's class."""
    if not (impl.startswith("done") or impl.startswith("timeout")):
        return False
    may = model.startswith("may-deadlock")
    if may != predicted_deadlock(case):
        return False
    a, b = msgs(case)
    if "msgs_a=%d msgs_b=%d" % (a, b) not in model:
        return False
    if may:
        return model.endswith("adversary=deadlock")
    return model.endswith("adversary=done") and impl.startswith("done")


def known(case, impl):
    if impl.startswith("timeout") and predicted_deadlock(case):
        return FINDING
    return None


def nontrivial(case, impl):
    a, b = msgs(case)
    return max(a, b) >= max(case["cap"], 1)


def shrink(case):
    for side in ("repa", "repb"):
        rep = case[side]
        for i in range(len(rep)):
            a, l, rws = rep[i]
            if len(rws) > 1:
                yield dict(case, **{side: rep[:i] + [[a, l, rws[:-1]]] + rep[i + 1:]})
            yield dict(case, **{side: rep[:i] + rep[i + 1:]})
    if case["cap"] < 8:
        yield dict(case, cap=case["cap"] + 1)


def distribution(cases, impl):
    d = {"predicted_deadlock": 0, "observed_timeout": 0, "predicted_terminates": 0, "completed": 0, "by_cap": {}}
    for i, c in enumerate(cases):
        p = predicted_deadlock(c)
        d["predicted_deadlock" if p else "predicted_terminates"] += 1
        line = impl.get(i, "")
        if line.startswith("timeout"):
            d["observed_timeout"] += 1
        elif line.startswith("done"):
            d["completed"] += 1
        d["by_cap"][str(c["cap"])] = d["by_cap"].get(str(c["cap"]), 0) + 1
    return d
