"""C34 — Message ratchet yields the sender's key for any delivery order."""
import itertools

ID = "C34"
HARNESS_PKG = "h_enc_a"
HARNESS_ARGS = ["c34"]
COQ_IMPORTS = "From PV Require Import Model.Ratchet Oracle.C34."
TECHNIQUE = ("Coq proof (invariant over arbitrary request sequences; refinement of secret_for_decryption to a head-counter + used-set "
             "window specification) + differential correspondence of the Gallina model with the real DecryptionRatchet/RatchetSecret (real HKDF)")
LEVEL_TEXT = ("Proved in Coq for every request sequence (any order, loss, duplication, no length bound), for arbitrary chain/key derivation "
              "functions: C34_key_correct (returned key material = sender's key of that generation), C34_at_most_once (no generation answered twice), "
              "both for arbitrary and even changing window sizes; C34_window_exact (for a fixed configuration with ooo < 2^31 and generations < u32::MAX the "
              "answers equal the window specification), C34_spec_ok_iff / C34_spec_errors (the specification answers a key iff unused and inside both "
              "windows, and names the rejection reason), C34_index_in_bounds (no IndexOutOfBounds, no overflow), C34_sender_keys. The model is tied to "
              "ratchet.rs on every run: the real receiver is run next to the real sender (HKDF), each answer is reported as the index of the matching "
              "sender key or the error class, the final window state is read through serde and compared with the model's.")
LEVEL_NOTE = ("Trusted: Coq kernel + vm_compute; hand-written model; HKDF as a deterministic total function (no cryptographic property is needed "
              "or claimed); harness/python glue. Boundaries stated as theorem guards and reproduced as model outcomes, not findings: a request for "
              "generation u32::MAX overflows `generation += 1` (the sender overflows at the same generation, so no such message exists), and "
              "ooo_tolerance >= 2^31 makes `(head - g) as i32` negative/overflow (needs 2^31 stored keys). Correspondence is differential testing.")
ASSUMPTIONS = ["HKDF-SHA256 is a deterministic total function of its input (chain/key/nonce derivation never fails for 32/12 byte outputs)",
               "fixed-configuration theorems: ooo_tolerance < 2^31 and requested generations < u32::MAX; a caller keeps its previous state when the call returns Err",
               "debug build semantics for arithmetic overflow (panic)"]
TRUSTED = ["modelled not verified: HKDF, serde representation of the ratchet state (used by the harness to start at a given head generation and to read the window)"]
RULE = ("quick: all request sequences of length <= 3 over generations {0..4} x all windows (fwd, ooo) in 0..4 x 0..4; 700 random permutations of 5-6 generations "
        "with loss and duplication, windows 0..4; 300 random long deliveries (up to 80 requests, jitter/loss/duplication/jumps, windows up to 64); "
        "windows changing between requests; u32 boundary cases (head near u32::MAX, head - g around 2^31 with ooo >= 2^31). thorough: all sequences of "
        "length <= 4 over {0..4} x all 25 windows, all of length 5 x 3 windows, all permutations of 6 generations x 9 windows, 7500 random. "
        "non-trivial = at least one key handed out and (at least one rejection or a key for an older generation than one already seen)")
MAXU32 = 4294967295
COQ_SHARD = 600


def _perm_loss_dup(rng, n):
    gens = list(range(n))
    rng.shuffle(gens)
    gens = [g for g in gens if rng.random() > 0.15]
    for _ in range(rng.randint(0, 2)):
        if gens:
            gens.insert(rng.randrange(len(gens) + 1), rng.choice(gens))
    return gens


def _long(rng, n, maxw):
    """A sender stream 0..n-1 delivered with jitter, loss, duplication and occasional jumps."""
    fwd = rng.choice([0, 1, 2, 3, 5, 8, 16, maxw, 1000])
    ooo = rng.choice([0, 1, 2, 3, 5, 8, 16, maxw])
    jitter = rng.choice([0, 1, 2, 4, 8, 20])
    items = []
    t = 0
    for g in range(n):
        t += 1
        if rng.random() < 0.1:
            continue
        items.append((t + rng.uniform(0, jitter), g))
        if rng.random() < 0.1:
            items.append((t + rng.uniform(0, 3 * jitter + 1), g))
    items.sort()
    gs = [g for _, g in items]
    for _ in range(rng.randint(0, 2)):
        if gs:
            gs.insert(rng.randrange(len(gs) + 1), rng.randrange(0, 2 * n + 2))
    # stretch the generation axis sometimes (bigger jumps)
    k = rng.choice([1, 1, 1, 2, 7])
    return fwd, ooo, [g * k for g in gs]


def _boundary(rng):
    out = []
    for base in (MAXU32 - 6, MAXU32 - 2, MAXU32 - 1, MAXU32):
        for fwd in (0, 3, 10, MAXU32):
            for ooo in (0, 2, 5):
                gs = [min(MAXU32, base + d) for d in (0, 2, 1, 4)] + [MAXU32 - 1, MAXU32, base - 1, MAXU32 - 3]
                rng.shuffle(gs)
                out.append({"base": base, "reqs": [[g, fwd, ooo] for g in gs[:6]]})
    lim = 2147483648
    for k in (3, 5):
        for ooo in (lim - 1, lim, lim + 1, MAXU32):
            base = lim + k
            gs = [k, k + 1, k - 1, base, base - 1, base + 2, base + 1, k]
            out.append({"base": base, "reqs": [[g, 4, ooo] for g in gs]})
    return out


def gen(tier, rng):
    quick = tier == "quick"
    maxlen = 3 if quick else 4
    for fwd in range(5):
        for ooo in range(5):
            for n in range(0, maxlen + 1):
                for gs in itertools.product(range(5), repeat=n):
                    yield {"base": 0, "reqs": [[g, fwd, ooo] for g in gs]}
    if not quick:
        for fwd, ooo in ((1, 1), (2, 3), (4, 2)):
            for gs in itertools.product(range(5), repeat=5):
                yield {"base": 0, "reqs": [[g, fwd, ooo] for g in gs]}
        for fwd in (0, 2, 4):
            for ooo in (0, 2, 4):
                for gs in itertools.permutations(range(6)):
                    yield {"base": 0, "reqs": [[g, fwd, ooo] for g in gs]}
    for _ in range(700 if quick else 3000):
        gs = _perm_loss_dup(rng, rng.choice([5, 6]))
        fwd, ooo = rng.randint(0, 4), rng.randint(0, 4)
        yield {"base": rng.choice([0, 0, 0, 7]), "reqs": [[g, fwd, ooo] for g in gs]}
    for _ in range(300 if quick else 3000):
        fwd, ooo, gs = _long(rng, rng.randint(5, 60 if quick else 200), 64)
        base = rng.choice([0, 0, 0, 5, 1000])
        yield {"base": base, "reqs": [[g + (base if rng.random() < 0.9 else 0), fwd, ooo] for g in gs]}
    # windows changing between requests (outside the fixed-configuration theorems; key
    # correctness and at-most-once still apply, IndexOutOfBounds becomes possible)
    for _ in range(150 if quick else 1500):
        gs = _perm_loss_dup(rng, 6) + _perm_loss_dup(rng, 8)
        yield {"base": 0, "reqs": [[g, rng.randint(0, 6), rng.randint(0, 6)] for g in gs]}
    for c in _boundary(rng):
        yield c


def harness_line(case):
    return "%d %s" % (case["base"], " ".join("%d:%d:%d" % tuple(r) for r in case["reqs"]))


def _reqs(case):
    return "[" + ";".join("(%d%%N,%d%%N,%d%%N)" % tuple(r) for r in case["reqs"]) + "]"


def coq_model(case):
    return "model_line %d%%N %s" % (case["base"], _reqs(case))


_ERR = {"F": "(OE TooFuture)", "P": "(OE TooPast)", "R": "(OE Reuse)", "I": "(OE IndexOOB)", "X": "OX"}


def _obs(impl):
    toks = impl.split("|")[0].split()
    out = []
    for t in toks:
        if t.startswith("K"):
            out.append("OKU" if t == "K?" else "(OK %d%%N)" % int(t[1:]))
        else:
            out.append(_ERR[t])  # unknown token (e.g. H = Hkdf error) -> KeyError -> oracle false
    return out


def coq_oracle(case, impl):
    return "check %d%%N %s [%s]" % (case["base"], _reqs(case), ";".join(_obs(impl)))


def nontrivial(case, impl):
    toks = impl.split("|")[0].split()
    keys = [int(t[1:]) for t in toks if t.startswith("K") and t != "K?"]
    if not keys:
        return False
    older = any(keys[i] < max(keys[:i]) for i in range(1, len(keys)))
    return older or any(not t.startswith("K") for t in toks)


def shrink(case):
    r = case["reqs"]
    for i in range(len(r)):
        yield {"base": case["base"], "reqs": r[:i] + r[i + 1:]}


def distribution(cases, impl):
    cnt = {}
    n = 0
    for i, c in enumerate(cases):
        if i not in impl:
            continue
        for t in impl[i].split("|")[0].split():
            k = "K" if t.startswith("K") else t
            cnt[k] = cnt.get(k, 0) + 1
            n += 1
    return {"requests": n, "answer_classes": cnt, "max_requests_per_case": max(len(c["reqs"]) for c in cases),
            "cases_with_changing_windows": sum(1 for c in cases if len({(r[1], r[2]) for r in c["reqs"]}) > 1),
            "cases_not_starting_at_generation_0": sum(1 for c in cases if c["base"] != 0)}
