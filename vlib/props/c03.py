"""C03 — Ingest keeps every stored log a hash-linked, gap-free chain; heights never decrease;
non-extending operations are rejected."""
import itertools

from . import ingestlib as L

ID = "C03"
HARNESS_PKG = "h_ingest"
HARNESS_ARGS = ["c03"]
COQ_IMPORTS = "From PV Require Import Model.Ingest Lib.IngestObs Oracle.C03."
COQ_SHARD = 150
TECHNIQUE = ("Coq proof (store invariant by induction over the delivery list: unique seq per log, every non-prune entry linked to "
             "its stored predecessor, provenance; height monotonicity; exact characterisation of what ingest inserts) + differential "
             "correspondence of the Gallina model with the real ingest_operation + LogPrune on an in-memory SqliteStore after every delivery")
LEVEL_TEXT = ("Theorems C03_chain_invariant and C03_height_never_decreases are proved in Coq for every delivery sequence (any order, "
              "duplicates, gaps, forged copies, wrong backlinks; no size bound) of histories from non-equivocating authors (wf_history); "
              "C03_inserted_iff_extends characterises exactly which operations ingest inserts, C03_rejected_* give the named rejection "
              "reasons, C03_not_inserted_store_unchanged that a rejected operation changes nothing. The model (Model/Ingest.v) is tied to "
              "p2panda-stream/src/ingest/operation.rs, p2panda-core/src/prune.rs + operation.rs and the SQLite log store on every run: the "
              "real ingest_operation and LogPrune processor run on generated histories (all delivery orders of small logs, random "
              "multi-author histories with prune points, forged/corrupted copies, u32 boundary), dumping get_log_entries/get_log_heights "
              "after every delivery; the dumps must equal the model's and satisfy the proved-sound boolean invariant checker.")
LEVEL_NOTE = ("Trusted: Coq kernel + vm_compute; hand-written model; SQLite semantics and the store transaction (modelled as atomic); "
              "validate_operation is an abstract boolean of the model (signature/encoding validity is C01); the harness composes ingest and "
              "LogPrune the way p2panda/src/processor/pipeline.rs does (that composition on the real Node is checked by C04). "
              "Correspondence is differential testing bounded by the generators.")
ASSUMPTIONS = ["wf_history: a validated operation's hash field is its header hash; header hashes are collision free and determine "
               "author/log/seq/backlink/prune flag; at most one validated operation per (author, log, seq) (non-equivocation)",
               "the transaction around get_latest_entry_tx + insert_operation is atomic and serialised (single writer)",
               "seq_num + 1 overflow at u32::MAX is a panic (debug build), stated as C03_seq_max_panics and observed by the harness"]
TRUSTED = ["modelled not verified: SQLite statement semantics (INTEGER seq_num comparison, DELETE/INSERT OR IGNORE), sqlx transactions, "
           "ed25519/BLAKE3/CBOR inside validate_operation and Header::hash"]
RULE = ("quick: all delivery orders of one honest 4-entry log for all 16 prune-flag patterns, all orders of three 5-entry logs with 2 "
        "prune points, u32-boundary cases, 450 random multi-author/multi-log histories (chains with prune points, gaps, wrong backlinks, "
        "forged copies in the same slot, body-less copies, shuffles/duplicates/drops/late re-delivery), 40 histories with copies carrying "
        "a foreign/junk hash field (class of the open finding); thorough: all orders of all 32 "
        "5-entry patterns, two 6-entry patterns, 2000 larger random histories, 200 with foreign hash fields. non-trivial = at least two operations inserted and at "
        "least one rejected in the same case")
NONTRIVIAL_FLOOR = 50


def gen(tier, rng):
    for c in L.boundary_cases():
        yield c
    if tier == "quick":
        for flags in itertools.product([0, 1], repeat=4):
            yield from L.single_log_permutations(list(flags))
        for flags in ([0, 1, 0, 1, 0], [0, 0, 1, 1, 0], [1, 0, 0, 1, 1]):
            yield from L.single_log_permutations(flags)
        for _ in range(450):
            yield L.random_history(rng)
        for _ in range(40):
            yield L.random_history(rng, bad_ids=True, prune_p=0.4)
    else:
        for flags in itertools.product([0, 1], repeat=5):
            yield from L.single_log_permutations(list(flags))
        for flags in ([0, 1, 0, 0, 1, 0], [0, 0, 1, 1, 0, 1]):
            yield from L.single_log_permutations(flags)
        for _ in range(2000):
            yield L.random_history(rng, big=True)
        for _ in range(200):
            yield L.random_history(rng, bad_ids=True, prune_p=0.4)


harness_line = L.harness_line


def coq_model(case):
    return "model_line %s %s %s %s" % (L.N(case["na"]), L.N(case["nl"]), L.coq_ops(case), L.coq_nats(case["ds"]))


def coq_oracle(case, impl):
    _bits, steps = L.parse_impl(impl)
    return "check %s %s %s" % (L.coq_ops(case), L.coq_nats(case["ds"]), L.coq_obs(steps))


def nontrivial(case, impl):
    rs = [st.split("/")[0] for st in impl.split(" ; ")[1:]]
    return rs.count("I") >= 2 and any(r.startswith("R:") for r in rs)


def known(case, impl):
    # class of the open finding: a validated operation whose `hash` field is not its header hash was delivered
    return None if L.ids_ok(case) else "foreign-hash-field-accepted"


shrink = L.shrink
distribution = L.distribution
REGISTERED = True
