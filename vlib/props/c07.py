"""C07 — Stream cursors only move forward and only for their own topic."""
import itertools

ID = "C07"
HARNESS_PKG = "h_c07"
COQ_IMPORTS = "From PV Require Import Model.Heights Model.Cursor Model.AckConc Oracle.C06 Oracle.C07.\nOpen Scope N_scope."
COQ_SHARD = 400
TECHNIQUE = ("Coq proof (cursor state = pointwise maximum of all advances, permutation invariance, monotonicity of every stored cursor "
             "under any history of acks, rejection of foreign-topic acks; for k CONCURRENT acks through one Acked an LTS with the semaphore permit "
             "modelled and a proof by induction over the schedule that every interleaving is serialisable) + differential correspondence of the "
             "Gallina model with the real Cursor::advance and the real Acked::ack / Acked::cursor over in-memory and file-backed SqliteStores, "
             "concurrent calls replayed step by step through cfg-gated schedule points")
LEVEL_TEXT = ("Theorems C07_advance_is_max / C07_advance_perm / C07_advance_monotone (any cursor, any sequence of advances) and C07_ack_monotone / "
              "C07_ack_all_monotone / C07_ack_foreign_rejected / C07_ack_reaches / C07_ack_all_is_max / C07_ack_only_own_topic (any cursor store, any "
              "history of acks through any set of Acked instances with any names and topics) are proved in Coq without bounds; "
              "C07_oracle_adv_sound shows the advance oracle implies the max equation for every (author, log). "
              "Concurrent calls on ONE Acked (and its clones) are modelled as a transition system (Model/AckConc.v: acquire the permit - FIFO queue -, "
              "topic check, read, advance, begin, write, release, in the order of the code) and C07_concurrent_acks_max / C07_concurrent_acks_as_sequential / "
              "C07_concurrent_acks_monotone hold for EVERY schedule and any number of calls: when all calls have returned the stored cursor is the pointwise "
              "maximum of the initial cursor and the accepted acks (= what the calls give one after the other) and no stored entry ever decreases in between; "
              "C07_concurrent_acks_unserialised_read_refuted / C07_concurrent_acks_early_release_refuted show by witness that the two re-orderings 'read before "
              "acquire' and 'release before write' lose acknowledgements in the same model (regression lemmas, not findings). The model is tied to "
              "p2panda-core/src/cursor.rs and p2panda/src/streams/acked.rs on every run: real Cursor::advance sequences and real Acked::ack calls "
              "(several Acked instances over one SqliteStore, cursor read back through Acked::cursor and CursorStore::get_cursor after every call) "
              "are compared with the model step by step; concurrent calls (join_all and spawned tasks, current-thread and multi-thread runtime, in-memory and "
              "file-backed default-pool store) are held at schedule points inside Acked::cursor / Acked::ack / SqliteStore::begin and released one label at a time, "
              "the persisted cursor being read after every label; the oracle is evaluated on the implementation's observations. "
              "A few cases per run go through a real Node: two topic streams, published operations, the public StreamSubscription::ack.")
LEVEL_NOTE = ("Trusted: Coq kernel + vm_compute; hand-written model; SQLite upsert/select of cursors_v1 and the CBOR round trip of a cursor "
              "(exercised by every ack case, not proved); tokio's Semaphore (one permit, FIFO hand-over, release on drop: modelled, exercised by the scheduled cases); "
              "BLAKE3 log ids of distinct topics distinct; harness/python glue. "
              "Two separately constructed Acked values with the same cursor name do not share a semaphore: the lost-update interleaving is "
              "exhibited in the model (Proofs/Cursor.v two_instances_can_regress) and lies outside the property's quantifier.")
ASSUMPTIONS = ["one Acked (and its clones) per cursor name: calls through separately constructed instances with the same name are not serialised by anything",
               "tokio::sync::Semaphore: one permit, handed over in FIFO order, released when the guard is dropped; a SELECT through the pool sees exactly the committed upserts",
               "LogId::from_topic is injective on the topics used (BLAKE3)",
               "the cursors_v1 table behaves as a finite map keyed by name and decode_cbor(encode_cbor(cursor)) = cursor"]
TRUSTED = ["modelled not verified: SQLite cursor table, CBOR cursor encoding, tokio Semaphore, BTreeMap"]
RULE = ("node = random histories on a real Node (explicit ack policy, two topic streams, 1-4 published operations each, 3-8 calls of "
        "StreamSubscription::ack incl. cross-topic ones; 6 quick / 40 thorough); quick: adv = all advance sequences of length <= 3 over 2 logs x heights {0,1,2} (259) and 400 random ones of length 4, all 120 orders of 3 random 5-advance multisets over "
        "3 authors x 3 logs, 200 random sequences (<= 40 advances, initial state, heights up to u32::MAX); ack = all sequences of length <= 2 over "
        "2 default-named topic streams x 2 authors x 2 topics x seq {0,1,2} (601) and 300 random histories (1-4 instances with default or custom, "
        "possibly shared names, 3 topics of which one is tracked by nobody, <= 14 acks); conc = 24 of the 252 interleavings of two calls (all 252 in thorough), "
        "64 random label lists for 2-5 calls (every call gets >= 5 labels + 30% labels that hit queued or returned calls; own- and foreign-topic headers, half of them one log "
        "with descending heights) and 32 free-running bursts of 2-8 calls, cycling through {current-thread, multi-thread} x {join_all, spawned tasks} x {in-memory, file-backed default pool}. "
        "thorough: adv length <= 5 (9331) + 20 multisets x 120 orders "
        "+ 2000 random; ack length <= 2 as in quick + all 1728 length-3 sequences with one author + 3000 random (<= 40 acks); conc 252 + 800 + 400. "
        "non-trivial = adv: some advance was ignored (lower than the current height); ack: both an accepted and a rejected ack occur; conc: some call was "
        "really queued on the semaphore behind another one (scheduled) / at least two calls (free running)")


# ---------------------------------------------------------------- generators

def _rand_height(rng):
    r = rng.random()
    if r < 0.75:
        return rng.randrange(0, 8)
    if r < 0.95:
        return rng.randrange(0, 100000)
    return (1 << 32) - 1 - rng.randrange(0, 3)


def _rand_adv(rng, maxlen):
    na, nl = rng.randint(1, 4), rng.randint(1, 4)
    init = []
    for a in range(na):
        if rng.random() < 0.4:
            ls = [l for l in range(nl) if rng.random() < 0.5]
            init.append([a, [[l, _rand_height(rng)] for l in ls]])
    n = rng.randint(0, maxlen)
    xs = [[rng.randrange(na), rng.randrange(nl), _rand_height(rng)] for _ in range(n)]
    return {"kind": "adv", "init": init, "xs": xs}


def _rand_ack(rng, maxlen):
    ni = rng.randint(1, 4)
    insts = []
    for _ in range(ni):
        t = rng.randrange(2)
        name = None if rng.random() < 0.5 else rng.randrange(3)
        insts.append([name, t])
    n = rng.randint(0, maxlen)
    ops = []
    for _ in range(n):
        i = rng.randrange(ni)
        # mostly the instance's own topic, sometimes another tracked one or the untracked topic 2
        t = insts[i][1] if rng.random() < 0.65 else rng.randrange(3)
        ops.append([i, rng.randrange(3), t, _rand_height(rng)])
    return {"kind": "ack", "insts": insts, "ops": ops}


def _rand_node(rng):
    counts = [rng.randint(1, 4), rng.randint(1, 4)]
    ops = []
    for _ in range(rng.randint(3, 8)):
        i = rng.randrange(2)
        t = i if rng.random() < 0.7 else 1 - i
        ops.append([i, t, rng.randrange(counts[t])])
    return {"kind": "node", "counts": counts, "ops": ops}


CONC_CFGS = ["cjm", "cjf", "csm", "csf", "mjm", "mjf", "msm", "msf"]   # runtime, join_all/spawn, memory/file


def _interleave(rng, k, per=5, extra=0.3):
    """A label list in which every call gets at least `per` labels (enough to return when it is
    never queued), randomly interleaved, plus some labels that hit queued / returned calls."""
    labels = [i for i in range(k) for _ in range(per)]
    labels += [rng.randrange(k) for _ in range(int(len(labels) * extra))]
    rng.shuffle(labels)
    return labels


def _rand_conc(rng, cfg, free=False):
    k = rng.randint(2, 8 if free else 5)
    t = rng.randrange(2)
    nauth = rng.randint(1, 3)

    def hdr():
        lt = t if rng.random() < 0.85 else 1 - t
        return [rng.randrange(nauth), lt, rng.randrange(0, 8)]
    init = [hdr() for _ in range(rng.choice([0, 0, 1, 2]))]
    acks = [hdr() for _ in range(k)]
    if rng.random() < 0.5:
        # one log, descending heights: a stale overwrite moves the cursor backwards
        top = rng.randrange(k, k + 4)
        acks = [[0, t, top - i] for i in range(k)]
    return {"kind": "conc", "cfg": cfg, "topic": t, "init": init, "acks": acks,
            "sched": None if free else _interleave(rng, k)}


def _two_call_schedules():
    """All interleavings of two calls with five labels each (252)."""
    out = []
    for pos in itertools.combinations(range(10), 5):
        out.append([0 if i in pos else 1 for i in range(10)])
    return out


def _as_ack(case):
    """A node case is an ack case: two default-named topic streams, the node's key is author 0."""
    if case["kind"] != "node":
        return case
    return {"kind": "ack", "insts": [[None, 0], [None, 1]], "ops": [[i, 0, t, j] for i, t, j in case["ops"]]}


def gen(tier, rng):
    quick = tier == "quick"
    # node: real Node, two topic streams, StreamSubscription::ack (expensive: one node per case)
    for _ in range(6 if quick else 40):
        yield _rand_node(rng)
    # adv: exhaustive short sequences over a 6-letter alphabet
    alpha = [[0, l, h] for l in (0, 1) for h in (0, 1, 2)]
    for n in range(0, (3 if quick else 5) + 1):
        for xs in itertools.product(alpha, repeat=n):
            yield {"kind": "adv", "init": [], "xs": [list(x) for x in xs]}
    if quick:
        for _ in range(400):
            yield {"kind": "adv", "init": [], "xs": [list(rng.choice(alpha)) for _ in range(4)]}
    # adv: all orders of some multisets
    for _ in range(3 if quick else 20):
        ms = [[rng.randrange(3), rng.randrange(3), rng.randrange(4)] for _ in range(5)]
        init = [[0, [[0, 1]]]] if rng.random() < 0.5 else []
        for p in itertools.permutations(ms):
            yield {"kind": "adv", "init": init, "xs": [list(x) for x in p]}
    for _ in range(200 if quick else 2000):
        yield _rand_adv(rng, 40 if quick else 120)
    # ack: two topic streams with their default cursor names
    insts = [[None, 0], [None, 1]]
    ops_alpha = [[i, a, t, h] for i in (0, 1) for a in (0, 1) for t in (0, 1) for h in (0, 1, 2)]
    for n in range(0, 3):
        for ops in itertools.product(ops_alpha, repeat=n):
            yield {"kind": "ack", "insts": insts, "ops": [list(o) for o in ops]}
    if not quick:
        one_author = [o for o in ops_alpha if o[1] == 0]
        for ops in itertools.product(one_author, repeat=3):
            yield {"kind": "ack", "insts": insts, "ops": [list(o) for o in ops]}
    for _ in range(300 if quick else 3000):
        yield _rand_ack(rng, 14 if quick else 40)
    # conc: several acks in flight at once through ONE Acked, schedule replayed step by step
    two = _two_call_schedules()
    pick = rng.sample(two, 24) if quick else two
    for n, sch in enumerate(pick):
        # two authors / one author with descending heights, alternating
        acks = [[0, 0, 5], [1, 0, 3]] if n % 2 else [[0, 0, 5], [0, 0, 3]]
        yield {"kind": "conc", "cfg": CONC_CFGS[n % 8], "topic": 0, "init": [], "acks": acks, "sched": sch}
    for n in range(64 if quick else 800):
        yield _rand_conc(rng, CONC_CFGS[n % 8])
    for n in range(32 if quick else 400):
        yield _rand_conc(rng, CONC_CFGS[n % 8], free=True)


# ---------------------------------------------------------------- rendering

def _name_idx(inst):
    name, t = inst
    return 1000 + t if name is None else name


def harness_line(case):
    if case["kind"] == "conc":
        tr = lambda xs: ", ".join("%d %d %d" % tuple(x) for x in xs)
        sch = "free" if case["sched"] is None else " ".join(map(str, case["sched"]))
        return "conc %s %d ; %s ; %s ; %s" % (case["cfg"], case["topic"], tr(case["init"]), tr(case["acks"]), sch)
    if case["kind"] == "node":
        return "node %d %d ; %s" % (case["counts"][0], case["counts"][1], " ; ".join("%d %d %d" % tuple(o) for o in case["ops"]))
    if case["kind"] == "adv":
        init = " ".join("%d/%d=%d" % (a, l, h) for a, inner in case["init"] for l, h in inner)
        ops = " ; ".join("%d %d %d" % tuple(x) for x in case["xs"])
        return "adv %s ; %s" % (init, ops)
    insts = " ".join("%s:%d" % ("-" if n is None else str(n), t) for n, t in case["insts"])
    ops = " ; ".join("%d %d %d %d" % tuple(o) for o in case["ops"])
    return "ack %s ; %s" % (insts, ops)


def _coq_heights(m):
    return "[" + ";".join("(%d,[%s])" % (a, ";".join("(%d,%d)" % (l, h) for l, h in inner)) for a, inner in m) + "]"


def _coq_xs(xs):
    return "[" + ";".join("(%d,%d,%d)" % tuple(x) for x in xs) + "]"


def _coq_insts(insts):
    return "[" + ";".join("{|aname:=%d;atopic:=%d|}" % (_name_idx(i), i[1]) for i in insts) + "]"


def _coq_ops(ops):
    return "[" + ";".join("(%d%%nat,{|hauthor:=%d;hlog:=%d;hseq:=%d|})" % (i, a, t, h) for i, a, t, h in ops) + "]"


def _coq_hdrs(hs):
    return "[" + ";".join("{|hauthor:=%d;hlog:=%d;hseq:=%d|}" % (a, t, h) for a, t, h in hs) + "]"


def _coq_conc_k(case):
    return "{|aname:=%d;atopic:=%d|}" % (1000 + case["topic"], case["topic"])


def _parse_conc(impl):
    """-> (init, [steps], [results], final) or None."""
    parts = impl.split(" | ")
    if len(parts) != 3:
        return None
    steps = [p.strip() for p in parts[0].split(" ; ")]

    def st(tok):
        if not (tok.startswith("[") and tok.endswith("]")):
            raise ValueError(tok)
        return _parse_state(tok[1:-1])
    try:
        init = st(steps[0])
        rest = []
        for p in steps[1:]:
            letters, _, cur = p.partition(" ")
            if not letters or any(c not in "IWHRBNKX" for c in letters):
                return None
            rest.append((letters, st(cur)))
        fin = st(parts[2].strip())
    except ValueError:
        return None
    return init, rest, parts[1].split(), fin


def _init_sorted(case):
    return sorted([a, sorted(inner)] for a, inner in case["init"] if inner)


def coq_model(case):
    if case["kind"] == "conc":
        sch = "[" + ";".join(map(str, case["sched"] or [])) + "]%nat"
        return "model_line_conc %s %s %s %s" % (_coq_conc_k(case), _coq_hdrs(case["init"]), _coq_hdrs(case["acks"]), sch)
    case = _as_ack(case)
    if case["kind"] == "adv":
        return "model_line_adv %s %s" % (_coq_heights(_init_sorted(case)), _coq_xs(case["xs"]))
    return "model_line_ack %s %s" % (_coq_insts(case["insts"]), _coq_ops(case["ops"]))


def _parse_state(s):
    out = []
    for tok in s.split():
        a, rest = tok.split("/", 1)
        a = int(a)
        if not out or out[-1][0] != a:
            out.append([a, []])
        if rest == "":
            continue
        l, h = rest.split("=")
        out[-1][1].append([int(l), int(h)])
    return out


def _parse_ack(impl):
    """-> list of (res, [state, ...]) or None if the line is not well-formed."""
    steps = []
    if impl.strip() == "":
        return steps
    for part in impl.split(" ; "):
        part = part.strip()
        res, _, rest = part.partition(" ")
        if res not in ("ok", "InvalidTopic"):
            return None
        states = []
        rest = rest.strip()
        while rest:
            if not rest.startswith("["):
                return None
            j = rest.index("]")
            states.append(_parse_state(rest[1:j]))
            rest = rest[j + 1:].strip()
        steps.append((res, states))
    return steps


def coq_oracle(case, impl):
    if impl.startswith("PANIC") or "RAWDIFF" in impl or "?" in impl:
        return "false"
    if case["kind"] == "conc":
        p = _parse_conc(impl)
        if p is None:
            return "false"
        init, steps, res, fin = p
        rmap = {"ok": "Some AckOk", "InvalidTopic": "Some AckInvalidTopic"}
        return "check_conc %s %s %s [%s] [%s] %s" % (
            _coq_conc_k(case), _coq_hdrs(case["acks"]), _coq_heights(init),
            ";".join(_coq_heights(c) for _, c in steps), ";".join(rmap.get(r, "None") for r in res), _coq_heights(fin))
    case = _as_ack(case)
    if case["kind"] == "adv":
        if "|" not in impl:
            return "false"
        seen, final = impl.split("|")
        seen = [t for t in seen.strip().split(",") if t != ""]
        seen_c = "[" + ";".join("None" if t == "-" else "Some %d" % int(t) for t in seen) + "]"
        return "check_adv %s %s %s %s" % (_coq_heights(_init_sorted(case)), _coq_xs(case["xs"]), seen_c, _coq_heights(_parse_state(final)))
    steps = _parse_ack(impl)
    if steps is None:
        return "false"
    obs = "[" + ";".join("(%s,[%s])" % ("AckOk" if r == "ok" else "AckInvalidTopic", ";".join(_coq_heights(s) for s in sts)) for r, sts in steps) + "]"
    return "check_ack %s %s %s" % (_coq_insts(case["insts"]), _coq_ops(case["ops"]), obs)


def nontrivial(case, impl):
    if impl.startswith("PANIC"):
        return False
    if case["kind"] == "conc":
        p = _parse_conc(impl)
        if p is None:
            return False
        # a call was really queued on the semaphore behind another one / several calls ran freely
        return any("W" in letters for letters, _ in p[1]) if case["sched"] is not None else len(case["acks"]) >= 2
    if case["kind"] == "adv":
        if "|" not in impl:
            return False
        seen = [t for t in impl.split("|")[0].strip().split(",") if t != ""]
        return any(t != "-" and int(t) > x[2] for t, x in zip(seen, case["xs"]))
    return ("ok " in impl or impl.endswith("ok")) and "InvalidTopic" in impl


def shrink(case):
    if case["kind"] == "conc":
        acks, sch = case["acks"], case["sched"]
        for i in range(len(acks)):
            if len(acks) > 1:
                c = dict(case)
                c["acks"] = acks[:i] + acks[i + 1:]
                if sch is not None:
                    c["sched"] = [x - (1 if x > i else 0) for x in sch if x != i]
                yield c
        if sch is not None:
            for i in range(len(sch)):
                c = dict(case)
                c["sched"] = sch[:i] + sch[i + 1:]
                yield c
        if case["init"]:
            c = dict(case)
            c["init"] = []
            yield c
        if case["cfg"] != "cjm":
            c = dict(case)
            c["cfg"] = "cjm"
            yield c
        return
    if case["kind"] == "node":
        ops = case["ops"]
        for i in range(len(ops)):
            c = dict(case)
            c["ops"] = ops[:i] + ops[i + 1:]
            yield c
        return
    key = "xs" if case["kind"] == "adv" else "ops"
    xs = case[key]
    for i in range(len(xs)):
        c = dict(case)
        c[key] = xs[:i] + xs[i + 1:]
        yield c
    for i, x in enumerate(xs):
        if x[-1] > 0:
            c = dict(case)
            c[key] = xs[:i] + [x[:-1] + [x[-1] // 2]] + xs[i + 1:]
            yield c
    if case["kind"] == "adv" and case["init"]:
        c = dict(case)
        c["init"] = []
        yield c


def distribution(cases, impl):
    adv = [c for c in cases if c["kind"] == "adv"]
    ack = [c for c in cases if c["kind"] in ("ack", "node")]
    res = {"ok": 0, "InvalidTopic": 0, "other": 0}
    for i, c in enumerate(cases):
        if c["kind"] in ("ack", "node") and i in impl:
            for part in impl[i].split(" ; "):
                r = part.strip().split(" ")[0]
                if r in res:
                    res[r] += 1
                elif r:
                    res["other"] += 1
    conc = [(i, c) for i, c in enumerate(cases) if c["kind"] == "conc"]
    cfgs, queued = {}, 0
    for i, c in conc:
        key = c["cfg"] + ("-free" if c["sched"] is None else "")
        cfgs[key] = cfgs.get(key, 0) + 1
        p = _parse_conc(impl.get(i, ""))
        if p and any("W" in letters for letters, _ in p[1]):
            queued += 1
    return {"conc_cases": len(conc), "conc_configs": cfgs, "conc_with_queued_call": queued,
            "max_conc_calls": max([len(c["acks"]) for _, c in conc] or [0]),
            "adv_cases": len(adv), "ack_cases": len(ack), "node_cases": sum(1 for c in cases if c["kind"] == "node"),
            "max_adv_len": max([len(c["xs"]) for c in adv] or [0]), "max_ack_len": max([len(c["ops"]) for c in ack] or [0]),
            "ack_results": res,
            "shared_name_configs": sum(1 for c in ack if c["kind"] == "ack" and len({_name_idx(i) for i in c["insts"]}) < len(c["insts"])),
            "panics": sum(1 for v in impl.values() if v.startswith("PANIC"))}
