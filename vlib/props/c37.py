"""C37 — Two-party messaging (2SM) decrypts in any interleaving (send order per direction) and rejects replays."""
import itertools
import re

ID = "C37"
HARNESS_PKG = "h_enc_b"
HARNESS_ARGS = ["c37"]
COQ_IMPORTS = "From PV Require Import Model.TwoParty Oracle.C37."
TECHNIQUE = ("Coq proof over a symbolic model of the 2SM state machine (pairing invariant between the two parties' states, "
             "induction over the interleaving) + differential correspondence of the model with the real TwoParty/KeyManager")
LEVEL_TEXT = ("PARTIAL (symbolic cryptography). Theorems C37_decrypts_in_send_order / C37_replay_rejected are proved in Coq for every "
              "interleaving of sends in both directions, in-order receives and replays (no bound), for one-time and long-term pre-key "
              "bundles and for one or both parties opening the session, over a faithful transcription of the state machine of "
              "two_party.rs (which key each send uses, how the receiver picks the secret key, when keys are rotated/deleted) with "
              "HPKE as ideal PKE, X3DH as a one-shot ideal channel keyed by the pre-key bundle and fresh keys as names. The model is tied "
              "to the code on every run: the real TwoParty (both bundle kinds) with the crate's KeyManager and the model execute the same "
              "random/exhaustive event sequences (sends, in-order receives, replays, out-of-order deliveries); per event the outcome, the "
              "decrypted plaintext id and the key used, and at the end every field of both TwoPartyStates, must agree; the oracle is "
              "evaluated on the implementation's observations.")
LEVEL_NOTE = ("Not verified: the cryptographic primitives (X25519, HPKE, X3DH/HKDF/AEAD, RNG) — replaced by ideal term algebra; CBOR "
              "encoding of the payload; u64 index overflow (2^64 sends). Correspondence is differential testing bounded by the generators.")
ASSUMPTIONS = [
    "ideal PKE: an HPKE ciphertext opens with exactly the secret key whose public key it was sealed to (free constructors in Model/TwoParty.v)",
    "X3DH is a one-shot ideal channel keyed by the receiver's pre-key bundle; bundle lifetimes are valid",
    "freshly generated key pairs never collide (keys are names indexed by party, send number and role)",
    "messages of one direction are processed in send order (the property's premise); replays are of messages processed in order before",
    "u64 key indices do not overflow",
]
TRUSTED = ["modelled not verified: X25519/HPKE/X3DH/HKDF/AEAD/RNG (symbolic), CBOR round trip of TwoPartyPlaintext, KeyManager pre-key lookup"]
RULE = ("quick: every sequence over {send a, send b, recv a, recv b} of length <= 5 without idle receives, for both bundle kinds and both "
        "session openings, plus 300 random interleavings (length <= 40) with replays of processed messages and some out-of-order "
        "deliveries; thorough: length <= 7 and 3000 random (length <= 120). non-trivial = a successful receive in both directions "
        "and at least one rejected replay, or (exhaustive part) a successful receive after sends in both directions")
COQ_SHARD = 150


def _sim_ok(mode_sym, evs):
    """tiny mirror used only for shaping the generator: which sends succeed / queues non-empty"""
    sym = mode_sym
    sent = {"a": 0, "b": 0}   # successful sends by a / b
    got = {"a": 0, "b": 0}    # processed by a / b
    for e in evs:
        k, p = e[0], e[1]
        o = "b" if p == "a" else "a"
        if k == "s":
            if p == "b" and not sym and got["b"] == 0 and sent["b"] == 0:
                continue
            sent[p] += 1
        elif k == "r":
            if got[p] >= sent[o]:
                return False
            got[p] += 1
    return True


def gen(tier, rng):
    if tier == "quick":
        maxlen, nrand, rl = 5, 300, 40
    else:
        maxlen, nrand, rl = 7, 3000, 120
    base = ["sa", "sb", "ra", "rb"]
    for n in range(1, maxlen + 1):
        for evs in itertools.product(base, repeat=n):
            if evs[-1][0] != "r":
                continue
            for sym in (False, True):
                if not _sim_ok(sym, evs):
                    continue
                for mode in ("ot", "lt"):
                    yield {"mode": mode, "init": "s" if sym else "r", "evs": list(evs)}
    for _ in range(nrand):
        mode = rng.choice(["ot", "lt"])
        sym = rng.random() < 0.4
        n = rng.randint(4, rl)
        sent = {"a": 0, "b": 0}
        got = {"a": 0, "b": 0}
        evs = []
        wild = rng.random() < 0.25     # include out-of-order deliveries
        burst = rng.choice([1, 1, 2, 4])
        while len(evs) < n:
            r = rng.random()
            p = rng.choice("ab")
            o = "b" if p == "a" else "a"
            if r < 0.38:
                for _ in range(rng.randint(1, burst)):
                    evs.append("s" + p)
                    if not (p == "b" and not sym and got["b"] == 0 and sent["b"] == 0):
                        sent[p] += 1
            elif r < 0.78:
                if got[p] < sent[o]:
                    evs.append("r" + p)
                    got[p] += 1
                elif rng.random() < 0.1:
                    evs.append("r" + p)
            elif r < 0.95:
                if got[p] > 0:
                    # mostly the most recent ones, sometimes any older one, rarely out of range
                    if rng.random() < 0.6:
                        i = got[p] - 1 - min(got[p] - 1, rng.randint(0, 1))
                    else:
                        i = rng.randrange(got[p] + (1 if rng.random() < 0.1 else 0))
                    evs.append("p%s%d" % (p, i))
            elif wild:
                evs.append("f%s%d" % (p, rng.randint(0, 2)))
        yield {"mode": mode, "init": "s" if sym else "r", "evs": evs}


def harness_line(case):
    return "%s %s %s" % (case["mode"], case["init"], " ".join(case["evs"]))


_P = {"a": "PA", "b": "PB"}


def _events(case):
    out = []
    for pos, e in enumerate(case["evs"]):
        k, p = e[0], _P[e[1]]
        if k == "s":
            out.append("Send %s %d%%N" % (p, pos))
        elif k == "r":
            out.append("Recv %s" % p)
        elif k == "p":
            out.append("Replay %s %d%%nat" % (p, int(e[2:])))
        else:
            out.append("Future %s %d%%nat" % (p, int(e[2:])))
    return "[" + "; ".join(out) + "]"


def coq_model(case):
    return "model_line %s %s %s" % ("true" if case["mode"] == "ot" else "false",
                                    "true" if case["init"] == "s" else "false", _events(case))


_ERR = {"PreKeyReuse": "EPreKeyReuse", "UnknownSecretUsed": "EUnknownSecretUsed", "UnknownPreKeyUsed": "EUnknownPreKeyUsed",
        "InvalidCiphertextType": "EInvalidCiphertextType", "Hpke": "EHpke", "X3dh": "EX3dh"}


def _used(s):
    if s == "p":
        return "PreKey"
    if s == "r":
        return "ReceivedKey"
    if s[0] == "o":
        return "(OwnKey %d%%N)" % int(s[1:])
    raise ValueError(s)


def _obs(tok):
    if tok == "-":
        return "ONone"
    if tok.startswith("S:"):
        return "OSent %s" % _used(tok[2:])
    if tok.startswith("SE:"):
        return "OSendErr %s" % _ERR.get(tok[3:], "EX3dh")
    if tok.startswith("E:"):
        return "ORecvErr %s" % _ERR.get(tok[2:], "EX3dh")
    if tok[0] == "R" and tok[1:].isdigit():
        return "ORecv %d%%N" % int(tok[1:])
    raise ValueError(tok)


def coq_oracle(case, impl):
    toks = impl.split(" | ")[0].split()
    return "check %s [%s]" % (_events(case), "; ".join(_obs(t) for t in toks))


def _collapse(line):
    return re.sub(r"\b(S?E):\w+", r"\1", line)


def agree(case, impl, model):
    # the property does not name the reason of a rejection: compare outcome classes, plaintext ids,
    # keys used and the complete final states; the error variant is reported as drift only
    return _collapse(impl) == _collapse(model)


def nontrivial(case, impl):
    toks = impl.split(" | ")[0].split()
    ok = {"a": 0, "b": 0}
    rej = 0
    for e, t in zip(case["evs"], toks):
        if e[0] == "r" and t.startswith("R"):
            ok[e[1]] += 1
        if e[0] == "p" and t.startswith("E:"):
            rej += 1
    return ok["a"] > 0 and ok["b"] > 0 and (rej > 0 or len(case["evs"]) <= 7)


def shrink(case):
    evs = case["evs"]
    for i in range(len(evs)):
        yield dict(case, evs=evs[:i] + evs[i + 1:])
    for i, e in enumerate(evs):
        if e[0] in "pf" and int(e[2:]) > 0:
            yield dict(case, evs=evs[:i] + [e[:2] + str(int(e[2:]) - 1)] + evs[i + 1:])


def distribution(cases, impl):
    kinds = {}
    outcomes = {}
    lens = []
    for i, c in enumerate(cases):
        lens.append(len(c["evs"]))
        for e in c["evs"]:
            kinds[e[0]] = kinds.get(e[0], 0) + 1
        for t in (impl.get(i) or "").split(" | ")[0].split():
            k = t if not t[:1] == "R" else "R"
            if t.startswith("S:"):
                k = "S:" + t[2:3]
            outcomes[k] = outcomes.get(k, 0) + 1
    return {"cases": len(cases), "max_len": max(lens), "mean_len": round(sum(lens) / len(lens), 1),
            "event_kinds": dict(sorted(kinds.items())), "outcomes": dict(sorted(outcomes.items())),
            "modes": {m: sum(1 for c in cases if c["mode"] == m) for m in ("ot", "lt")},
            "both_open": sum(1 for c in cases if c["init"] == "s")}
