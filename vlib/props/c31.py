"""C31 — replicas of a group converge to the same membership and access."""
import itertools

ID = "C31"
HARNESS_PKG = "h_c31"
COQ_IMPORTS = "From PV Require Import Model.GroupCrdt Oracle.C31."
COQ_SHARD = 40
SEARCH_LIMIT = 600
FINDING = "members_order_dependent_with_conditions"

TECHNIQUE = ("Coq proof (merge of member states is ACI without conditions => the per-operation state is a function of the operation's "
             "causal history => any two causal orders of one operation set give the same states, heads, members and root members) + "
             "differential/metamorphic correspondence of the Gallina model with the real GroupCrdt<StrongRemove>")
LEVEL_TEXT = ("PROVED in Coq, for every history without access conditions and any two causal processing orders (dependency sets iterated in "
              "any order), over the model of GroupCrdt::process in which the StrongRemove filter is empty: C31_merge_comm/assoc/idem (state "
              "merge is ACI), C31_merge_states_perm_invariant, C31_state_fn_of_history, C31_converge_no_rebuild (same per-operation states, "
              "same accepted set, same members()/root_members() for every group) and C31_members_query_deterministic (the members traversal "
              "does not depend on map iteration order). C31_refuted_conditions proves, on the model of Access::partial_cmp as it is, that "
              "with access conditions the answer depends on the iteration order (open finding, reproduced on the real code). "
              "PARTIAL: convergence through StrongRemove rebuilds (non-empty filter, mutual removes) is NOT proved; it is checked on every "
              "run by correspondence only: random concurrent histories are processed by the real GroupCrdt<.., StrongRemove> in several "
              "causal orders with repeated queries and all answers must be identical (metamorphic oracle on the real code); in addition an "
              "executable transcription of the strong-remove filter (no mutual-remove cycles) is compared with the implementation, and the "
              "proved model is compared on filter-free histories.")
LEVEL_NOTE = ("Trusted: Coq kernel + vm_compute; hand-written model (HashMap/HashSet = association lists whose iteration order is a "
              "permutation parameter; GroupStates flattened to one map keyed by (group, member); nested-group cycle rejection and "
              "mutual-remove authority graphs not modelled); harness/python glue. Correspondence is differential testing, bounded by the "
              "generators.")
ASSUMPTIONS = ["theorems: no access conditions (C = (), every Access has conditions = None); every operation's dependencies precede it (causal order); operation ids unique",
               "model of process covers histories whose StrongRemove filter stays empty; other histories are covered by correspondence only",
               "generated histories add nested groups only along a fixed rank order (no nested-group cycles) and create every group once"]
TRUSTED = ["modelled not verified: HashMap iteration order = list order (theorems quantify over permutations)",
           "modelled not verified: validate's rebuild of the state at the dependencies = merge of stored per-operation states (filter empty)",
           "not modelled: mutual-remove cycles (authority_graphs.rs), would_create_cycle; covered by the metamorphic oracle on the real code only"]
RULE = ("random concurrent group histories built by a python simulator of replicas/branches (create, add, remove incl. self-removal, "
        "promote, demote, nested groups, a few unauthorised operations), modes: plain (C=()), cond-sep (one fixed condition per "
        "individual, no nesting), cond-mixed (random conditions below Manage, nesting); each processed in the generation order plus "
        "random topological orders (quick: 240 histories, 4 orders x 3 queries, 3-14 ops; thorough: 750 histories, 8 orders, up to 22 ops). "
        "non-trivial = the history has at least two concurrent operations, at least two distinct orders were run and a non-create "
        "operation was accepted")

LEVELS = 4


# ------------------------------------------------------------------------------------------------
# python mini simulator (used only to generate mostly-valid operations; never an oracle)
# ------------------------------------------------------------------------------------------------

def _acc_cmp(a, b):
    """Access::partial_cmp; access = (lvl, cond) with cond 0 = None, c+1 = Some(c)."""
    (la, ca), (lb, cb) = a, b
    lc = (la > lb) - (la < lb)
    if ca and cb:
        if ca < cb:
            return -1
        return -1 if lc < 0 else 1
    if not ca and cb:
        return -1 if lc < 0 else 1
    return lc


def _combine(v1, v2):
    mc1, a1, ac1 = v1
    mc, a, ac = v2
    if mc1 > mc:
        mc, a, ac = mc1, a1, ac1
    if mc1 == mc:
        if ac1 > ac:
            a, ac = a1, ac1
        if ac1 == ac and _acc_cmp(a1, a) < 0:
            a = a1
    return (mc, a, ac)


def _merge(s1, s2):
    out = dict(s2)
    for k, v in s1.items():
        out[k] = _combine(v, out[k]) if k in out else v
    return out


def _apply(s, op):
    """Returns the new state or None when the action does not apply (no filter)."""
    g, actor = op["group"], (0, op["author"])
    kind = op["kind"]
    s = dict(s)
    if kind == 0:
        for k in [k for k in s if k[0] == g]:
            del s[k]
        for (mk, mid, l, c) in op["init"]:
            s[(g, (mk, mid))] = (1, (l, c), 0)
        return s
    m = (op["mk"], op["mid"])
    new = (op["lvl"], op["cond"])

    def manages(who):
        v = s.get((g, who))
        return v is not None and v[0] % 2 == 1 and v[1][0] == 3

    if kind == 1:
        if not manages(actor):
            return None
        v = s.get((g, m))
        if v is not None and v[0] % 2 == 1:
            return None
        s[(g, m)] = ((v[0] + 1) if v else 1, new, 0)
        return s
    if kind == 2:
        r = s.get((g, actor))
        if r is None or r[0] % 2 == 0:
            return None
        if r[1][0] != 3 and actor != m:
            return None
        v = s.get((g, m))
        if v is None or v[0] % 2 == 0:
            return None
        s[(g, m)] = (v[0] + 1, v[1], 0)
        return s
    v = s.get((g, m))
    if v is None:
        return None
    if kind == 3 and v[1][0] == 3:
        return s
    if kind == 4 and v[1][0] == 0:
        return s
    if not manages(actor) or v[0] % 2 == 0:
        return None
    if v[1] != new:
        s[(g, m)] = (v[0], new, v[2] + 1)
    return s


def _heads(view, ops_by_id):
    deps = set()
    for i in view:
        deps.update(ops_by_id[i]["deps"])
    return sorted(i for i in view if i not in deps)


def _history(rng, mode, nind, ngrp, nsteps, maxbranch, p_invalid):
    """mode: 'plain' | 'sep' | 'mixed'."""
    ROOT = 100
    groups = [ROOT + i for i in range(ngrp)]
    fixed_cond = {i: (rng.choice([0, 1, 2, 3]) if mode == "sep" else 0) for i in range(nind)}

    def access(member, allow_manage=True):
        mk, mid = member
        top = 3 if (allow_manage and mk == 0) else 2
        l = rng.randint(0, top)
        if mode == "plain" or l == 3 or mk == 1 and mode == "sep":
            return (l, 0)
        if mode == "sep":
            return (l, fixed_cond[mid])
        return (l, rng.choice([0, 0, 1, 2, 3]))

    ops, by_id, states = [], {}, {}

    def emit(op, view):
        op["id"] = len(ops)
        op["deps"] = _heads(view, by_id)
        base = {}
        for d in op["deps"]:
            base = _merge(states[d], base)
        new = _apply(base, op)
        states[op["id"]] = new if new is not None else base
        ops.append(op)
        by_id[op["id"]] = op
        if new is not None:      # an operation the simulator considers invalid stays a dangling leaf
            view.add(op["id"])

    def create(g, creator, view):
        others = [i for i in range(nind) if i != creator]
        rng.shuffle(others)
        init = [(0, creator, 3, 0)]
        for i in others[: rng.randint(0, len(others))]:
            l, c = access((0, i))
            init.append((0, i, l, c))
        rng.shuffle(init)
        emit({"author": creator, "group": g, "kind": 0, "mk": 0, "mid": 0, "lvl": 0, "cond": 0, "init": init}, view)

    views = [set()]
    create(ROOT, 0, views[0])
    pending = groups[1:]
    for _ in range(nsteps):
        r = rng.random()
        if r < 0.18 and len(views) < maxbranch:
            views.append(set(rng.choice(views)))
            continue
        if r < 0.33 and len(views) >= 2:
            a, b = rng.sample(range(len(views)), 2)
            views[a] |= views[b]
            if rng.random() < 0.5:
                views.pop(b)
            continue
        view = rng.choice(views)
        if pending and rng.random() < 0.25:
            create(pending.pop(0), rng.randrange(nind), view)
            continue
        st = {}
        for h in _heads(view, by_id):
            st = _merge(states[h], st)
        present = sorted({k[0] for k in st})
        if not present:
            continue
        g = rng.choice(present)
        active = [k[1] for k, v in st.items() if k[0] == g and v[0] % 2 == 1]
        managers = [m for m in active if m[0] == 0 and st[(g, m)][1][0] == 3]
        if rng.random() < p_invalid or not managers:
            actor = rng.randrange(nind)
        else:
            actor = rng.choice(managers)[1]
        kind = rng.choice([1, 1, 1, 2, 2, 3, 3, 4, 4])
        if kind == 1:
            cands = [(0, i) for i in range(nind) if (0, i) not in active]
            if mode != "sep":
                cands += [(1, h) for h in groups if h > g and (1, h) not in active]
            if not cands:
                kind = rng.choice([2, 3, 4])
            else:
                m = rng.choice(cands)
        if kind != 1:
            if not active:
                continue
            m = rng.choice(active)
            if kind == 2 and rng.random() < 0.2:
                m = (0, actor)
        l, c = access(m) if kind != 2 else (0, 0)
        emit({"author": actor, "group": g, "kind": kind, "mk": m[0], "mid": m[1], "lvl": l, "cond": c, "init": []}, view)
    return ops, groups


def _topo(rng, ops):
    done, out = set(), []
    left = list(range(len(ops)))
    while left:
        ready = [i for i in left if all(d in done for d in ops[i]["deps"])]
        i = rng.choice(ready)
        left.remove(i)
        done.add(ops[i]["id"])
        out.append(i)
    return out


def _case(rng, mode, nind, ngrp, nsteps, maxbranch, norders, p_invalid=0.08):
    ops, groups = _history(rng, mode, nind, ngrp, nsteps, maxbranch, p_invalid)
    orders = [list(range(len(ops)))]
    for _ in range(norders - 1):
        o = _topo(rng, ops)
        if o not in orders:
            orders.append(o)
    return {"mode": mode, "reps": 3, "ops": ops, "groups": groups, "orders": orders}


def gen(tier, rng):
    if tier == "quick":
        plan = [("plain", 150, 4), ("sep", 40, 4), ("mixed", 50, 4)]
        steps, maxops = (8, 18), 14
    else:
        plan = [("plain", 500, 8), ("sep", 100, 8), ("mixed", 150, 8)]
        steps, maxops = (8, 30), 22
    for mode, n, norders in plan:
        k = 0
        while k < n:
            c = _case(rng, mode, rng.randint(3, 5), rng.randint(1, 3), rng.randint(*steps), rng.randint(2, 4), norders)
            if len(c["ops"]) < 3 or len(c["ops"]) > maxops:
                continue
            k += 1
            yield c


# ------------------------------------------------------------------------------------------------
# rendering
# ------------------------------------------------------------------------------------------------

def harness_line(case):
    t = [0 if case["mode"] == "plain" else 1, case["reps"], len(case["ops"])]
    for o in case["ops"]:
        t += [o["id"], o["author"], o["group"], o["kind"], o["mk"], o["mid"], o["lvl"], o["cond"], len(o["init"])]
        for e in o["init"]:
            t += list(e)
        t += [len(o["deps"])] + list(o["deps"])
    t += [len(case["groups"])] + list(case["groups"])
    t += [len(case["orders"])]
    for od in case["orders"]:
        t += list(od)
    return " ".join(map(str, t))


_LV = ["Pull", "Read", "Write", "Manage"]


def _acc(l, c):
    return "{| cond := %s; lvl := %s |}" % ("None" if c == 0 else "Some %d%%N" % (c - 1), _LV[l])


def _mem(mk, mid):
    return "(%s, %d%%N)" % ("true" if mk else "false", mid)


def _op(o):
    k = o["kind"]
    if k == 0:
        a = "Create [%s]" % "; ".join("(%s, %s)" % (_mem(e[0], e[1]), _acc(e[2], e[3])) for e in o["init"])
    elif k == 2:
        a = "Remove %s" % _mem(o["mk"], o["mid"])
    else:
        a = "%s %s %s" % ({1: "Add", 3: "Promote", 4: "Demote"}[k], _mem(o["mk"], o["mid"]), _acc(o["lvl"], o["cond"]))
    return "{| oid := %d%%N; author := %d%%N; group := %d%%N; act := %s; deps := [%s] |}" % (
        o["id"], o["author"], o["group"], a, "; ".join("%d%%N" % d for d in o["deps"]))


def coq_model(case):
    return "model_line [%s] [%s]" % ("; ".join(_op(o) for o in case["ops"]), "; ".join("%d%%N" % g for g in case["groups"]))


def _answers(impl):
    return [a.strip() for a in impl.split(" / ")]


def coq_oracle(case, impl):
    ans = _answers(impl)
    if any('"' in a or not a.startswith("acc=") for a in ans):
        return "false"
    return "check [%s]" % "; ".join('"%s"%%string' % a for a in ans)


# ------------------------------------------------------------------------------------------------
# classification
# ------------------------------------------------------------------------------------------------

def _past(case):
    by = {o["id"]: o for o in case["ops"]}
    memo = {}

    def p(i):
        if i not in memo:
            s = {i}
            for d in by[i]["deps"]:
                if d in by:
                    s |= p(d)
            memo[i] = s
        return memo[i]
    return {i: p(i) for i in by}


def _has_concurrency(case):
    past = _past(case)
    ids = list(past)
    return any(a not in past[b] and b not in past[a] for a, b in itertools.combinations(ids, 2))


def _mixed_members(case):
    """Members at which two different access values can meet that Access::partial_cmp does not
    order antisymmetrically (cmp(a,b) is not the opposite of cmp(b,a); needs a condition on at
    least one side): values assigned to the member itself (any group) or to any group-kind
    member (root-access clipping in members_inner)."""
    assigned = {}
    for o in case["ops"]:
        if o["kind"] == 0:
            for (mk, mid, l, c) in o["init"]:
                assigned.setdefault((mk, mid), set()).add((l, c))
        elif o["kind"] in (1, 3, 4):
            assigned.setdefault((o["mk"], o["mid"]), set()).add((o["lvl"], o["cond"]))
    via_groups = set()
    for (mk, mid), vs in assigned.items():
        if mk == 1:
            via_groups |= vs
    out = set()
    for m, vs in assigned.items():
        allv = sorted(vs | via_groups)
        if any(_acc_cmp(a, b) + _acc_cmp(b, a) != 0 for a, b in itertools.combinations(allv, 2)):
            out.add(m)
    return out


def _parse(ans):
    """answer -> (acc bits, {(query, group, kind, id): (lvl, cond)})"""
    toks = ans.split(" ")
    bits = toks[0][4:]
    d = {}
    for t in toks[1:]:
        if not t:
            continue
        q = t[0]
        g, _, rest = t[1:].partition("{")
        for e in rest.rstrip("}").split(","):
            if not e:
                continue
            k, _, v = e.partition("=")
            l, _, c = v.partition(".")
            d[(q, int(g), 1 if k[0] == "g" else 0, int(k[1:]))] = (int(l), int(c))
    return bits, d


def known(case, impl):
    if case["mode"] == "plain" or impl.startswith("PANIC"):
        return None
    try:
        parsed = [_parse(a) for a in _answers(impl)]
    except Exception:
        return None
    bits0, d0 = parsed[0]
    mixed = _mixed_members(case)
    for bits, d in parsed[1:]:
        if bits != bits0 or set(d) != set(d0):
            return None      # acceptance or membership itself differs: not this finding
        for k in d:
            if d[k] != d0[k] and (k[2], k[3]) not in mixed:
                return None
    return FINDING


CLASS = {"A": 0, "B": 0, "UNMODELLED": 0, "other": 0}


def agree(case, impl, model):
    tag = model.split(" ", 1)[0]
    CLASS[tag if tag in CLASS else "other"] += 1
    if tag == "UNMODELLED":
        return True
    if tag not in ("A", "B"):
        return False
    ans = _answers(impl)
    if model.split(" ", 1)[1].strip() == ans[0]:
        return True
    # with mixed conditions the implementation's answer depends on HashMap iteration order; the
    # model fixes one order, so a difference confined to the finding's class is not a mismatch
    if case["mode"] != "plain" and known(case, impl + " / " + model.split(" ", 1)[1].strip()) == FINDING and _mixed_members(case):
        return True
    return False


def nontrivial(case, impl):
    if impl.startswith("PANIC"):
        return False
    bits = _answers(impl)[0].split(" ")[0][4:]
    accepted_noncreate = any(b == "1" and o["kind"] != 0 for b, o in zip(bits, case["ops"]))
    return len(case["orders"]) >= 2 and accepted_noncreate and _has_concurrency(case)


def shrink(case):
    ops = case["ops"]
    used = set()
    for o in ops:
        used.update(o["deps"])
    for i in range(len(ops) - 1, 0, -1):
        if ops[i]["id"] in used:
            continue
        nops = ops[:i] + ops[i + 1:]
        orders = []
        for od in case["orders"]:
            no = [j if j < i else j - 1 for j in od if j != i]
            if no not in orders:
                orders.append(no)
        groups = [g for g in case["groups"] if any(o["kind"] == 0 and o["group"] == g for o in nops)]
        yield {"mode": case["mode"], "reps": case["reps"], "ops": nops, "groups": groups, "orders": orders}
    if len(case["orders"]) > 2:
        for j in range(1, len(case["orders"])):
            yield dict(case, orders=case["orders"][:j] + case["orders"][j + 1:])


def distribution(cases, impl):
    modes, kinds, nops, rejected, diverged = {}, {}, [], 0, 0
    for i, c in enumerate(cases):
        modes[c["mode"]] = modes.get(c["mode"], 0) + 1
        nops.append(len(c["ops"]))
        for o in c["ops"]:
            kinds[str(o["kind"])] = kinds.get(str(o["kind"]), 0) + 1
        io = impl.get(i)
        if io and not io.startswith("PANIC"):
            ans = _answers(io)
            if "0" in ans[0].split(" ")[0][4:]:
                rejected += 1
            if len(set(ans)) > 1:
                diverged += 1
    return {"modes": modes, "op_kinds(0=create,1=add,2=remove,3=promote,4=demote)": kinds,
            "max_ops": max(nops), "mean_ops": round(sum(nops) / len(nops), 1),
            "cases_with_a_rejected_operation": rejected, "cases_with_diverging_answers": diverged,
            "concurrent_histories": sum(1 for c in cases if _has_concurrency(c)),
            "model_class(A=proved model,B=filter transcription,UNMODELLED=mutual removes possible)": dict(CLASS)}
