"""C31 — replicas of a group converge to the same membership and access."""
import itertools

ID = "C31"
HARNESS_PKG = "h_c31"
COQ_IMPORTS = "From PV Require Import Model.GroupCrdt Oracle.C31."
COQ_SHARD = 40
SEARCH_LIMIT = 600
FINDING = "members_order_dependent_with_conditions"

TECHNIQUE = ("Coq proof (merge of member states is ACI without conditions => the per-operation state is a function of the operation's "
             "causal history => any two causal orders of one operation set give the same states, heads, members and root members) + "
             "differential/metamorphic correspondence of the Gallina model with the real GroupCrdt<StrongRemove>")
LEVEL_TEXT = ("PROVED in Coq, for every history without access conditions and any two causal processing orders (dependency sets iterated in "
              "any order), over the model of GroupCrdt::process in which the StrongRemove filter is empty: C31_merge_comm/assoc/idem (state "
              "merge is ACI), C31_merge_states_perm_invariant, C31_state_fn_of_history, C31_converge_no_rebuild (same per-operation states, "
              "same accepted set, same members()/root_members() for every group) and C31_members_query_deterministic (the members traversal "
              "does not depend on map iteration order). C31_refuted_conditions proves, on the model of Access::partial_cmp as it is, that "
              "with access conditions the answer depends on the iteration order (open finding, reproduced on the real code). "
              "PARTIAL: convergence through StrongRemove rebuilds (non-empty filter, mutual removes) is NOT proved; it is checked on every "
              "run by correspondence only: random concurrent histories are processed by the real GroupCrdt<.., StrongRemove> in several "
              "causal orders with repeated queries and all answers must be identical (metamorphic oracle on the real code); in addition an "
              "executable transcription of the strong-remove filter (no mutual-remove cycles) and of the nested-group cycle check "
              "(would_create_cycle on the state at the operation's dependencies) is compared with the implementation, and the "
              "proved model is compared on filter-free histories whose nesting graph is statically acyclic. Replicas must also agree "
              "on the outcome KIND of every operation (accepted / GroupCycle / state-change error variant / ...).")
LEVEL_NOTE = ("Trusted: Coq kernel + vm_compute; hand-written model (HashMap/HashSet = association lists whose iteration order is a "
              "permutation parameter; GroupStates flattened to one map keyed by (group, member); nested-group cycle rejection only in "
              "the unproved transcription run_r; mutual-remove authority graphs not modelled); harness/python glue. Correspondence is differential testing, bounded by the "
              "generators.")
ASSUMPTIONS = ["theorems: no access conditions (C = (), every Access has conditions = None); every operation's dependencies precede it (causal order); operation ids unique",
               "model of process covers histories whose StrongRemove filter stays empty; other histories are covered by correspondence only",
               "theorems (model `run`) have no nested-group cycle check: they describe the code only for histories whose static 'group added to group' graph is acyclic (cycle_prone = false; modes plain/sep/mixed add groups along a fixed rank order); cycle-prone histories (mode nest) are covered by the metamorphic oracle on the real code and by the transcription run_r",
               "every group is created once"]
TRUSTED = ["modelled not verified: HashMap iteration order = list order (theorems quantify over permutations)",
           "modelled not verified: validate's rebuild of the state at the dependencies = merge of stored per-operation states (filter empty)",
           "not modelled: mutual-remove cycles (authority_graphs.rs); covered by the metamorphic oracle on the real code only",
           "would_create_cycle: transcribed in accept_r/run_r (evaluated on the state at the operation's dependencies), nothing proved about it; compared with the implementation on every cycle-prone history"]
RULE = ("random concurrent group histories built by a python simulator of replicas/branches (create, add, remove incl. self-removal, "
        "promote, demote, nested groups, a few unauthorised operations), modes: plain (C=()), cond-sep (one fixed condition per "
        "individual, no nesting), cond-mixed (random conditions below Manage, nesting), nest (C=(), 2-5 groups with one stable manager each: "
        "sub-group adds in both directions between groups issued sequentially and concurrently, reverse adds of an edge that exists somewhere "
        "in the DAG, chain closing G1>G2>G3 then G1 into G3, sub-group removals followed by / concurrent with reverse adds, stale branches, "
        "self-adds, a few individual operations); each processed in the generation order plus random topological orders, nest also in "
        "targeted orders that deliver a group add directly before a concurrent nesting operation (e.g. between the add and the removal of "
        "the opposite edge) (quick: 330 histories of which 90 nest, 4-5 orders x 2-3 queries, 3-14 ops; thorough: 1050 histories, 8 orders, "
        "up to 22 ops). The observation per replica is the accepted set, the outcome kind of every operation and members/root_members of every group. "
        "non-trivial = the history has at least two concurrent operations, at least two distinct orders were run and a non-create "
        "operation was accepted")

LEVELS = 4
PLAIN_MODES = ("plain", "nest")     # C = (): no access conditions anywhere


# ------------------------------------------------------------------------------------------------
# python mini simulator (used only to generate mostly-valid operations; never an oracle)
# ------------------------------------------------------------------------------------------------

def _acc_cmp(a, b):
    """Access::partial_cmp; access = (lvl, cond) with cond 0 = None, c+1 = Some(c)."""
    (la, ca), (lb, cb) = a, b
    lc = (la > lb) - (la < lb)
    if ca and cb:
        if ca < cb:
            return -1
        return -1 if lc < 0 else 1
    if not ca and cb:
        return -1 if lc < 0 else 1
    return lc


def _combine(v1, v2):
    mc1, a1, ac1 = v1
    mc, a, ac = v2
    if mc1 > mc:
        mc, a, ac = mc1, a1, ac1
    if mc1 == mc:
        if ac1 > ac:
            a, ac = a1, ac1
        if ac1 == ac and _acc_cmp(a1, a) < 0:
            a = a1
    return (mc, a, ac)


def _merge(s1, s2):
    out = dict(s2)
    for k, v in s1.items():
        out[k] = _combine(v, out[k]) if k in out else v
    return out


def _apply(s, op):
    """Returns the new state or None when the action does not apply (no filter)."""
    g, actor = op["group"], (0, op["author"])
    kind = op["kind"]
    s = dict(s)
    if kind == 0:
        for k in [k for k in s if k[0] == g]:
            del s[k]
        for (mk, mid, l, c) in op["init"]:
            s[(g, (mk, mid))] = (1, (l, c), 0)
        return s
    m = (op["mk"], op["mid"])
    new = (op["lvl"], op["cond"])

    def manages(who):
        v = s.get((g, who))
        return v is not None and v[0] % 2 == 1 and v[1][0] == 3

    if kind == 1:
        if not manages(actor):
            return None
        v = s.get((g, m))
        if v is not None and v[0] % 2 == 1:
            return None
        s[(g, m)] = ((v[0] + 1) if v else 1, new, 0)
        return s
    if kind == 2:
        r = s.get((g, actor))
        if r is None or r[0] % 2 == 0:
            return None
        if r[1][0] != 3 and actor != m:
            return None
        v = s.get((g, m))
        if v is None or v[0] % 2 == 0:
            return None
        s[(g, m)] = (v[0] + 1, v[1], 0)
        return s
    v = s.get((g, m))
    if v is None:
        return None
    if kind == 3 and v[1][0] == 3:
        return s
    if kind == 4 and v[1][0] == 0:
        return s
    if not manages(actor) or v[0] % 2 == 0:
        return None
    if v[1] != new:
        s[(g, m)] = (v[0], new, v[2] + 1)
    return s


def _heads(view, ops_by_id):
    deps = set()
    for i in view:
        deps.update(ops_by_id[i]["deps"])
    return sorted(i for i in view if i not in deps)


def _history(rng, mode, nind, ngrp, nsteps, maxbranch, p_invalid):
    """mode: 'plain' | 'sep' | 'mixed'."""
    ROOT = 100
    groups = [ROOT + i for i in range(ngrp)]
    fixed_cond = {i: (rng.choice([0, 1, 2, 3]) if mode == "sep" else 0) for i in range(nind)}

    def access(member, allow_manage=True):
        mk, mid = member
        top = 3 if (allow_manage and mk == 0) else 2
        l = rng.randint(0, top)
        if mode == "plain" or l == 3 or mk == 1 and mode == "sep":
            return (l, 0)
        if mode == "sep":
            return (l, fixed_cond[mid])
        return (l, rng.choice([0, 0, 1, 2, 3]))

    ops, by_id, states = [], {}, {}

    def emit(op, view):
        op["id"] = len(ops)
        op["deps"] = _heads(view, by_id)
        base = {}
        for d in op["deps"]:
            base = _merge(states[d], base)
        new = _apply(base, op)
        states[op["id"]] = new if new is not None else base
        ops.append(op)
        by_id[op["id"]] = op
        if new is not None:      # an operation the simulator considers invalid stays a dangling leaf
            view.add(op["id"])

    def create(g, creator, view):
        others = [i for i in range(nind) if i != creator]
        rng.shuffle(others)
        init = [(0, creator, 3, 0)]
        for i in others[: rng.randint(0, len(others))]:
            l, c = access((0, i))
            init.append((0, i, l, c))
        rng.shuffle(init)
        emit({"author": creator, "group": g, "kind": 0, "mk": 0, "mid": 0, "lvl": 0, "cond": 0, "init": init}, view)

    views = [set()]
    create(ROOT, 0, views[0])
    pending = groups[1:]
    for _ in range(nsteps):
        r = rng.random()
        if r < 0.18 and len(views) < maxbranch:
            views.append(set(rng.choice(views)))
            continue
        if r < 0.33 and len(views) >= 2:
            a, b = rng.sample(range(len(views)), 2)
            views[a] |= views[b]
            if rng.random() < 0.5:
                views.pop(b)
            continue
        view = rng.choice(views)
        if pending and rng.random() < 0.25:
            create(pending.pop(0), rng.randrange(nind), view)
            continue
        st = {}
        for h in _heads(view, by_id):
            st = _merge(states[h], st)
        present = sorted({k[0] for k in st})
        if not present:
            continue
        g = rng.choice(present)
        active = [k[1] for k, v in st.items() if k[0] == g and v[0] % 2 == 1]
        managers = [m for m in active if m[0] == 0 and st[(g, m)][1][0] == 3]
        if rng.random() < p_invalid or not managers:
            actor = rng.randrange(nind)
        else:
            actor = rng.choice(managers)[1]
        kind = rng.choice([1, 1, 1, 2, 2, 3, 3, 4, 4])
        if kind == 1:
            cands = [(0, i) for i in range(nind) if (0, i) not in active]
            if mode != "sep":
                cands += [(1, h) for h in groups if h > g and (1, h) not in active]
            if not cands:
                kind = rng.choice([2, 3, 4])
            else:
                m = rng.choice(cands)
        if kind != 1:
            if not active:
                continue
            m = rng.choice(active)
            if kind == 2 and rng.random() < 0.2:
                m = (0, actor)
        l, c = access(m) if kind != 2 else (0, 0)
        emit({"author": actor, "group": g, "kind": kind, "mk": m[0], "mid": m[1], "lvl": l, "cond": c, "init": []}, view)
    return ops, groups


def _reaches(st, src, target):
    """would_create_cycle's search on simulator state st: is group `target` reachable from `src`."""
    stack, seen = [src], set()
    while stack:
        c = stack.pop()
        if c in seen:
            continue
        seen.add(c)
        if c == target:
            return True
        stack += [k[1][1] for k, v in st.items() if k[0] == c and k[1][0] == 1 and v[0] % 2 == 1]
    return False


def _nest_history(rng, nind, ngrp, nsteps, maxbranch, p_invalid):
    """Cycle-prone nested-group histories: several groups, every group has one fixed manager who
    is never removed or demoted (so a manager's removal of a sub-group is never filtered), group
    adds in BOTH directions between groups (sequential and concurrent), reverse adds of an edge
    that exists somewhere in the DAG, closing of chains (G1 > G2 > G3, then G1 into G3), sub-group
    removals, stale branches that have not seen an add / a removal, a few individual operations
    so that membership through a nested group is observable."""
    ROOT = 100
    groups = [ROOT + i for i in range(ngrp)]
    mgr = {g: rng.randrange(nind) for g in groups}
    ops, by_id, states = [], {}, {}
    edges_ever, ok = [], set()

    def emit(op, view):
        op["id"] = len(ops)
        op["deps"] = _heads(view, by_id)
        base = {}
        for d in op["deps"]:
            base = _merge(states[d], base)
        new = _apply(base, op)
        if new is not None and op["kind"] == 1 and op["mk"] == 1 and _reaches(base, op["mid"], op["group"]):
            new = None          # GroupCycle at the operation's own dependencies
        states[op["id"]] = new if new is not None else base
        ops.append(op)
        by_id[op["id"]] = op
        if op["kind"] == 1 and op["mk"] == 1:
            edges_ever.append((op["group"], op["mid"]))
        if new is not None:
            view.add(op["id"])
            ok.add(op["id"])

    def mk(author, g, kind, m=(0, 0), lvl=0, init=()):
        return {"author": author, "group": g, "kind": kind, "mk": m[0], "mid": m[1], "lvl": lvl, "cond": 0, "init": list(init)}

    def create(g, view):
        init = [(0, mgr[g], 3, 0)]
        for i in range(nind):
            if i != mgr[g] and rng.random() < 0.35:
                init.append((0, i, rng.randint(0, 2), 0))
        rng.shuffle(init)
        emit(mk(mgr[g], g, 0, init=init), view)

    def state_of(view):
        st = {}
        for h in _heads(view, by_id):
            st = _merge(states[h], st)
        return st

    base_view = set()
    late = groups[-1] if ngrp >= 3 and rng.random() < 0.3 else None
    for g in groups:
        if g != late:
            create(g, base_view)
    snapshot = set(base_view)
    views = [base_view]
    for _ in range(nsteps):
        r = rng.random()
        if r < 0.15 and len(views) < maxbranch:
            views.append(set(rng.choice(views)))
            continue
        if r < 0.24 and len(views) >= 2:
            a, b = rng.sample(range(len(views)), 2)
            views[a] |= views[b]
            if rng.random() < 0.4:
                views.pop(b)
            continue
        if rng.random() < 0.12:         # a replica that has seen nothing but the creations
            view = set(snapshot)
            if len(views) < maxbranch:
                views.append(view)
        else:
            view = rng.choice(views)
        if late is not None and rng.random() < 0.3:
            create(late, view)
            late = None
            continue
        st = state_of(view)
        present = sorted({k[0] for k in st})
        if not present:
            continue

        def actor_for(g):
            return rng.randrange(nind) if rng.random() < p_invalid else mgr[g]

        t = rng.random()
        if t < 0.27:
            act = [(k[0], k[1][1]) for k, v in st.items() if k[1][0] == 1 and v[0] % 2 == 1]
            if act:
                g, h = rng.choice(sorted(act))
                stale = set(view)
                emit(mk(actor_for(g), g, 2, (1, h)), view)
                u = rng.random()
                if u < 0.35:        # reverse add from a branch that saw the add but not the removal
                    emit(mk(actor_for(h), h, 1, (1, g), rng.randint(0, 2)), stale)
                    if len(views) < maxbranch:
                        views.append(stale)
                elif u < 0.6:       # reverse add right after the removal
                    emit(mk(actor_for(h), h, 1, (1, g), rng.randint(0, 2)), view)
                continue
            t = 0.3
        if t < 0.78:
            u = rng.random()
            g = h = None
            if u < 0.45 and edges_ever:
                h, g = rng.choice(edges_ever)           # reverse of an edge that exists somewhere
            elif u < 0.62 and edges_ever:
                a, b = rng.choice(edges_ever)           # close a chain a > b > c by adding a to c
                nxt = [e for e in edges_ever if e[0] == b]
                if nxt:
                    g, h = rng.choice(nxt)[1], a
            if g is None:
                g = rng.choice(groups)
                h = g if rng.random() < 0.04 else rng.choice([x for x in groups if x != g] or [g])
            emit(mk(actor_for(g), g, 1, (1, h), rng.randint(0, 2)), view)
            continue
        g = rng.choice(present)
        active = [k[1] for k, v in st.items() if k[0] == g and v[0] % 2 == 1 and k[1][0] == 0 and k[1][1] != mgr[g]]
        kind = rng.choice([1, 1, 2, 3, 4])
        if kind == 1 or not active:
            cands = [(0, i) for i in range(nind) if i != mgr[g] and (0, i) not in active]
            if not cands:
                continue
            emit(mk(actor_for(g), g, 1, rng.choice(cands), rng.randint(0, 2)), view)
        else:
            m = rng.choice(active)
            actor = m[1] if kind == 2 and rng.random() < 0.2 else actor_for(g)
            emit(mk(actor, g, kind, m, 0 if kind == 2 else rng.randint(0, 2)), view)
    return ops, groups, mgr, ok


def _nest_cost(ops, groups, mgr, ok, depth=1000, cap=10 ** 9):
    """Upper bound on the number of `members_inner` calls one query round makes at the end of the
    history.  `members_inner` has no visited set, it is bounded only by MAX_NESTED_DEPTH = 1000:
    a nesting cycle (two concurrent adds in opposite directions, both valid) costs 1000 calls and
    two cycles through one group 2^500.  Edges counted: every add of a group that is valid at its
    own dependencies (simulator: authorised, not a duplicate, no cycle there) and not causally
    followed by the manager's removal of that group (managers are stable in this mode).  The
    harness has its own guard on the real state, this only keeps the generated set cheap."""
    past = _past({"ops": ops})
    alive = set()
    for a in ops:
        if a["kind"] == 1 and a["mk"] == 1 and a["id"] in ok:
            killed = any(r["kind"] == 2 and r["mk"] == 1 and r["group"] == a["group"] and r["mid"] == a["mid"]
                         and r["author"] == mgr[r["group"]] and r["id"] != a["id"] and a["id"] in past[r["id"]] for r in ops)
            if not killed:
                alive.add((a["group"], a["mid"]))
    nodes = set(groups) | {h for _, h in alive}
    w = {g: 1 for g in nodes}
    for _ in range(depth):
        w2 = {g: min(cap, 1 + sum(w[h] for (x, h) in alive if x == g)) for g in nodes}
        if w2 == w:         # acyclic nesting: stable after a few rounds
            break
        w = w2
    return sum(w[g] for g in groups)


def _targeted_orders(rng, ops, limit):
    """Orders in which a group add X is delivered directly before an operation R on the group
    nesting that is concurrent to it (after everything R depends on, e.g. between the add and the
    removal of the opposite edge), and the mirror order."""
    past = _past({"ops": ops})
    nest = [o for o in ops if o["mk"] == 1 and o["kind"] in (1, 2)]
    pairs = [(x, r) for x in nest if x["kind"] == 1 for r in nest
             if x["id"] != r["id"] and x["id"] not in past[r["id"]] and r["id"] not in past[x["id"]]]
    rng.shuffle(pairs)
    out = []
    for x, r in pairs[:limit]:
        first = sorted((past[x["id"]] | past[r["id"]]) - {x["id"], r["id"]})
        rest = [o["id"] for o in ops if o["id"] not in first and o["id"] not in (x["id"], r["id"])]
        out.append(first + [x["id"], r["id"]] + rest)
    return out


def _nest_case(rng, nind, ngrp, nsteps, maxbranch, norders, p_invalid=0.05):
    ops, groups, mgr, ok = _nest_history(rng, nind, ngrp, nsteps, maxbranch, p_invalid)
    orders = [list(range(len(ops)))]
    for o in _targeted_orders(rng, ops, max(1, norders // 2)):
        if o not in orders:
            orders.append(o)
    for _ in range(2 * norders):
        if len(orders) >= norders:
            break
        o = _topo(rng, ops)
        if o not in orders:
            orders.append(o)
    case = {"mode": "nest", "reps": 2, "ops": ops, "groups": groups, "orders": orders}
    return case, _nest_cost(ops, groups, mgr, ok)


def _topo(rng, ops):
    done, out = set(), []
    left = list(range(len(ops)))
    while left:
        ready = [i for i in left if all(d in done for d in ops[i]["deps"])]
        i = rng.choice(ready)
        left.remove(i)
        done.add(ops[i]["id"])
        out.append(i)
    return out


def _case(rng, mode, nind, ngrp, nsteps, maxbranch, norders, p_invalid=0.08):
    ops, groups = _history(rng, mode, nind, ngrp, nsteps, maxbranch, p_invalid)
    orders = [list(range(len(ops)))]
    for _ in range(norders - 1):
        o = _topo(rng, ops)
        if o not in orders:
            orders.append(o)
    return {"mode": mode, "reps": 3, "ops": ops, "groups": groups, "orders": orders}


NEST_CHEAP, NEST_DEEP_MAX = 200, 5500


def gen(tier, rng):
    if tier == "quick":
        plan = [("nest", 90, 5), ("plain", 150, 4), ("sep", 40, 4), ("mixed", 50, 4)]
        steps, maxops, ndeep = (8, 18), 14, 8
    else:
        plan = [("nest", 300, 8), ("plain", 500, 8), ("sep", 100, 8), ("mixed", 150, 8)]
        steps, maxops, ndeep = (8, 30), 22, 25
    for mode, n, norders in plan:
        k = 0
        while k < n and mode == "nest":
            c, cost = _nest_case(rng, rng.randint(3, 4), rng.randint(2, 5), rng.randint(*steps), rng.randint(2, 4), norders)
            if len(c["ops"]) < 4 or len(c["ops"]) > maxops:
                continue
            if cost > NEST_CHEAP:       # the final state may contain a nesting cycle: 1000-deep traversals
                if cost > NEST_DEEP_MAX or ndeep == 0:
                    continue
                ndeep -= 1
            k += 1
            yield c
        while k < n:
            c = _case(rng, mode, rng.randint(3, 5), rng.randint(1, 3), rng.randint(*steps), rng.randint(2, 4), norders)
            if len(c["ops"]) < 3 or len(c["ops"]) > maxops:
                continue
            k += 1
            yield c


# ------------------------------------------------------------------------------------------------
# rendering
# ------------------------------------------------------------------------------------------------

def harness_line(case):
    t = [0 if case["mode"] in PLAIN_MODES else 1, case["reps"], len(case["ops"])]
    for o in case["ops"]:
        t += [o["id"], o["author"], o["group"], o["kind"], o["mk"], o["mid"], o["lvl"], o["cond"], len(o["init"])]
        for e in o["init"]:
            t += list(e)
        t += [len(o["deps"])] + list(o["deps"])
    t += [len(case["groups"])] + list(case["groups"])
    t += [len(case["orders"])]
    for od in case["orders"]:
        t += list(od)
    return " ".join(map(str, t))


_LV = ["Pull", "Read", "Write", "Manage"]


def _acc(l, c):
    return "{| cond := %s; lvl := %s |}" % ("None" if c == 0 else "Some %d%%N" % (c - 1), _LV[l])


def _mem(mk, mid):
    return "(%s, %d%%N)" % ("true" if mk else "false", mid)


def _op(o):
    k = o["kind"]
    if k == 0:
        a = "Create [%s]" % "; ".join("(%s, %s)" % (_mem(e[0], e[1]), _acc(e[2], e[3])) for e in o["init"])
    elif k == 2:
        a = "Remove %s" % _mem(o["mk"], o["mid"])
    else:
        a = "%s %s %s" % ({1: "Add", 3: "Promote", 4: "Demote"}[k], _mem(o["mk"], o["mid"]), _acc(o["lvl"], o["cond"]))
    return "{| oid := %d%%N; author := %d%%N; group := %d%%N; act := %s; deps := [%s] |}" % (
        o["id"], o["author"], o["group"], a, "; ".join("%d%%N" % d for d in o["deps"]))


def coq_model(case):
    return "model_line [%s] [%s]" % ("; ".join(_op(o) for o in case["ops"]), "; ".join("%d%%N" % g for g in case["groups"]))


def _answers(impl):
    return [a.strip() for a in impl.split(" / ")]


def coq_oracle(case, impl):
    ans = _answers(impl)
    if any('"' in a or not a.startswith("acc=") for a in ans):
        return "false"
    return "check [%s]" % "; ".join('"%s"%%string' % a for a in ans)


# ------------------------------------------------------------------------------------------------
# classification
# ------------------------------------------------------------------------------------------------

def _past(case):
    by = {o["id"]: o for o in case["ops"]}
    memo = {}

    def p(i):
        if i not in memo:
            s = {i}
            for d in by[i]["deps"]:
                if d in by:
                    s |= p(d)
            memo[i] = s
        return memo[i]
    return {i: p(i) for i in by}


def _has_concurrency(case):
    past = _past(case)
    ids = list(past)
    return any(a not in past[b] and b not in past[a] for a, b in itertools.combinations(ids, 2))


def _mixed_members(case):
    """Members at which two different access values can meet that Access::partial_cmp does not
    order antisymmetrically (cmp(a,b) is not the opposite of cmp(b,a); needs a condition on at
    least one side): values assigned to the member itself (any group) or to any group-kind
    member (root-access clipping in members_inner)."""
    assigned = {}
    for o in case["ops"]:
        if o["kind"] == 0:
            for (mk, mid, l, c) in o["init"]:
                assigned.setdefault((mk, mid), set()).add((l, c))
        elif o["kind"] in (1, 3, 4):
            assigned.setdefault((o["mk"], o["mid"]), set()).add((o["lvl"], o["cond"]))
    via_groups = set()
    for (mk, mid), vs in assigned.items():
        if mk == 1:
            via_groups |= vs
    out = set()
    for m, vs in assigned.items():
        allv = sorted(vs | via_groups)
        if any(_acc_cmp(a, b) + _acc_cmp(b, a) != 0 for a, b in itertools.combinations(allv, 2)):
            out.add(m)
    return out


def _strip_kinds(ans):
    """answer without the implementation-only `e=<outcome kinds>` token (the model has none)."""
    return " ".join(t for t in ans.split(" ") if not t.startswith("e="))


def _kinds(ans):
    for t in ans.split(" "):
        if t.startswith("e="):
            return t[2:]
    return None


def _parse(ans):
    """answer -> (acc bits, {(query, group, kind, id): (lvl, cond)})"""
    toks = ans.split(" ")
    bits = toks[0][4:]
    d = {}
    for t in toks[1:]:
        if not t or t.startswith("e="):
            continue
        q = t[0]
        g, _, rest = t[1:].partition("{")
        for e in rest.rstrip("}").split(","):
            if not e:
                continue
            k, _, v = e.partition("=")
            l, _, c = v.partition(".")
            d[(q, int(g), 1 if k[0] == "g" else 0, int(k[1:]))] = (int(l), int(c))
    return bits, d


def known(case, impl):
    if case["mode"] in PLAIN_MODES or impl.startswith("PANIC"):
        return None
    try:
        parsed = [_parse(a) for a in _answers(impl)]
    except Exception:
        return None
    if len({k for k in map(_kinds, _answers(impl)) if k is not None}) > 1:
        return None          # replicas disagree on the outcome kind of an operation: not this finding
    bits0, d0 = parsed[0]
    mixed = _mixed_members(case)
    for bits, d in parsed[1:]:
        if bits != bits0 or set(d) != set(d0):
            return None      # acceptance or membership itself differs: not this finding
        for k in d:
            if d[k] != d0[k] and (k[2], k[3]) not in mixed:
                return None
    return FINDING


CLASS = {"A": 0, "B": 0, "UNMODELLED": 0, "other": 0}


def agree(case, impl, model):
    tag = model.split(" ", 1)[0]
    CLASS[tag if tag in CLASS else "other"] += 1
    if tag == "UNMODELLED":
        return True
    if tag not in ("A", "B"):
        return False
    ans = _answers(impl)
    if model.split(" ", 1)[1].strip() == _strip_kinds(ans[0]):
        return True
    # with mixed conditions the implementation's answer depends on HashMap iteration order; the
    # model fixes one order, so a difference confined to the finding's class is not a mismatch
    if case["mode"] not in PLAIN_MODES and known(case, impl + " / " + model.split(" ", 1)[1].strip()) == FINDING and _mixed_members(case):
        return True
    return False


def nontrivial(case, impl):
    if impl.startswith("PANIC"):
        return False
    bits = _answers(impl)[0].split(" ")[0][4:]
    accepted_noncreate = any(b == "1" and o["kind"] != 0 for b, o in zip(bits, case["ops"]))
    return len(case["orders"]) >= 2 and accepted_noncreate and _has_concurrency(case)


def shrink(case):
    ops = case["ops"]
    used = set()
    for o in ops:
        used.update(o["deps"])
    for i in range(len(ops) - 1, 0, -1):
        if ops[i]["id"] in used:
            continue
        nops = ops[:i] + ops[i + 1:]
        orders = []
        for od in case["orders"]:
            no = [j if j < i else j - 1 for j in od if j != i]
            if no not in orders:
                orders.append(no)
        groups = [g for g in case["groups"] if any(o["kind"] == 0 and o["group"] == g for o in nops)]
        yield {"mode": case["mode"], "reps": case["reps"], "ops": nops, "groups": groups, "orders": orders}
    if len(case["orders"]) > 2:
        for j in range(1, len(case["orders"])):
            yield dict(case, orders=case["orders"][:j] + case["orders"][j + 1:])


def distribution(cases, impl):
    modes, kinds, nops, rejected, diverged = {}, {}, [], 0, 0
    for i, c in enumerate(cases):
        modes[c["mode"]] = modes.get(c["mode"], 0) + 1
        nops.append(len(c["ops"]))
        for o in c["ops"]:
            kinds[str(o["kind"])] = kinds.get(str(o["kind"]), 0) + 1
        io = impl.get(i)
        if io and not io.startswith("PANIC"):
            ans = _answers(io)
            if "0" in ans[0].split(" ")[0][4:]:
                rejected += 1
            if len(set(ans)) > 1:
                diverged += 1
    outcome, nest = {}, {"histories": 0, "group_adds": 0, "group_removes": 0, "concurrent_opposite_adds": 0,
                         "add_then_remove_with_concurrent_reverse_add": 0, "GroupCycle_rejections": 0}
    for i, c in enumerate(cases):
        io = impl.get(i)
        if io and not io.startswith("PANIC"):
            for ch in (_kinds(_answers(io)[0]) or ""):
                outcome[ch] = outcome.get(ch, 0) + 1
        if c["mode"] != "nest":
            continue
        past = _past(c)
        ga = [o for o in c["ops"] if o["kind"] == 1 and o["mk"] == 1]
        gr = [o for o in c["ops"] if o["kind"] == 2 and o["mk"] == 1]

        def conc(a, b):
            return a["id"] not in past[b["id"]] and b["id"] not in past[a["id"]]
        nest["histories"] += 1
        nest["group_adds"] += len(ga)
        nest["group_removes"] += len(gr)
        nest["concurrent_opposite_adds"] += any(a["group"] == b["mid"] and a["mid"] == b["group"] and conc(a, b) for a in ga for b in ga)
        nest["add_then_remove_with_concurrent_reverse_add"] += any(
            r["group"] == a["group"] and r["mid"] == a["mid"] and a["id"] in past[r["id"]] and x["group"] == a["mid"]
            and x["mid"] == a["group"] and conc(x, a) and conc(x, r) for a in ga for r in gr for x in ga)
        if io and not io.startswith("PANIC"):
            nest["GroupCycle_rejections"] += (_kinds(_answers(io)[0]) or "").count("C")
    return {"modes": modes, "op_kinds(0=create,1=add,2=remove,3=promote,4=demote)": kinds,
            "outcome_kinds(.=accepted,-=dependency rejected,C=GroupCycle,M=manager group,a/r/s/n/m/u/v=state change error)": outcome,
            "nested_cycle_prone(mode nest)": nest,
            "max_ops": max(nops), "mean_ops": round(sum(nops) / len(nops), 1),
            "cases_with_a_rejected_operation": rejected, "cases_with_diverging_answers": diverged,
            "concurrent_histories": sum(1 for c in cases if _has_concurrency(c)),
            "model_class(A=proved model,B=filter+cycle-check transcription,UNMODELLED=mutual removes possible)": dict(CLASS)}
