"""C35 — Group data encryption: members agree on / hold the latest secret, removed members are cut off."""
import re

ID = "C35"
HARNESS_PKG = "h_enc_b"
HARNESS_ARGS = ["c35"]
COQ_IMPORTS = "From PV Require Import Model.Dcgka Oracle.C35."
TECHNIQUE = ("Coq proof over a symbolic knowledge model of the data-scheme DCGKA (who is sent which secret; invariants over all "
             "executions / all sequential histories) + differential correspondence with the real EncryptionGroup")
LEVEL_TEXT = ("PARTIAL. Proved in Coq over the knowledge model (Model/Dcgka.v): C35_removed_never_learns_later (in EVERY execution, any "
              "delivery order: a member outside the generator's view when a secret is generated never holds it unless a later add hands it "
              "over in a welcome bundle), C35_knowledge_is_justified (the only ways to learn a secret), C35_decrypt_iff_knows, "
              "C35_members_know_all_secrets_sequential (every history whose operations are issued by current members at quiescence: all "
              "current members hold every secret, hence the latest, and decrypt each other's data), C35_members_know_latest_refuted "
              "(witness: an add concurrent with an update leaves the new member without the newest secret) and "
              "C35_members_know_latest_outside_known. The model is tied to the code on every run: the real EncryptionGroup with the crate's "
              "KeyManager/KeyRegistry/test MessageOrderer executes random membership histories (sequential and concurrent) delivered in "
              "random causal orders; at quiescence per-member welcomed flag, members view, secret-id set and the full cross-decryption "
              "matrix (every member x every secret it holds x every receiver) must equal the model's; the oracle is evaluated on the "
              "implementation's observations.")
LEVEL_NOTE = ("DCGKA internals are abstracted to 'who is sent which secret'; 2SM channels and the AEAD are ideal; the DGM is the plain "
              "set DGM of the harness; timestamps/'latest' come from the implementation's observation (C36). Correspondence is "
              "differential testing bounded by the generators.")
ASSUMPTIONS = [
    "2SM direct messages are opened by their recipient only and arrive intact (C37, symbolic)",
    "ideal AEAD: data under secret s is opened exactly by holders of s; secret ids are collision free",
    "control messages are delivered to every member in causal order (the orderer's job; the generator produces causal orders)",
    "DGM = plain set membership (create/add/remove/from_welcome = adder's view + self); no concurrent add/remove of the same target for P1",
    "operations are issued by members that hold themselves to be members (authorisation is p2panda-auth's job, C33)",
]
TRUSTED = ["modelled not verified: dcgka.rs internals beyond 'who is sent which secret', X25519/HPKE/XChaCha20 (symbolic), "
           "SecretBundle timestamps/latest (taken from the implementation's observation), MessageOrderer (only causal deliveries generated)"]
RULE = ("quick: 200 random histories for 3-5 members: create, then add/remove/update by members, 55% sequential (each operation "
        "delivered to everyone before the next), 45% concurrent with random causal delivery orders, probes at quiescence; thorough: "
        "1500 histories up to 6 members / 24 operations. non-trivial = at least one add and one remove, >= 3 secrets, a probe with "
        ">= 3 welcomed members")
COQ_SHARD = 60
HARNESS_TIMEOUT = 1800


# ------------------------------------------------------------------------------------------------
# tiny mirror of the knowledge model: shapes the generator (valid issuers, causal deliveries) and
# classifies known-finding cases.  Never decides a verdict.
# ------------------------------------------------------------------------------------------------
class Sim:
    def __init__(self, n):
        self.n = n
        self.w = [False] * n
        self.view = [set() for _ in range(n)]
        self.knows = [set() for _ in range(n)]
        self.queued = [[] for _ in range(n)]
        self.dlv = [set() for _ in range(n)]
        self.msgs = []

    def past(self, k):
        return self.msgs[k]["past"]

    def issue(self, i, op, arg):
        k = len(self.msgs)
        if op == "c":
            if self.w[i]:
                return None
            init = set(arg) | {i}
            m = dict(sender=i, op="c", arg=init, rcpt=init - {i}, bundle=set(), hist=set())
            self.w[i] = True
            self.view[i] = set(init)
            self.knows[i].add(k)
        elif op == "u":
            if not self.w[i]:
                return None
            m = dict(sender=i, op="u", arg=None, rcpt=self.view[i] - {i}, bundle=set(), hist=set())
            self.knows[i].add(k)
        elif op == "r":
            if not self.w[i]:
                return None
            m = dict(sender=i, op="r", arg=arg, rcpt=self.view[i] - {i, arg}, bundle=set(), hist=set())
            self.view[i].discard(arg)
            self.knows[i].add(k)
        else:
            if not self.w[i] or arg == i:
                return None
            m = dict(sender=i, op="a", arg=arg, rcpt=set(), bundle=set(self.knows[i]), hist=set(self.view[i]))
            self.view[i].add(arg)
        m["past"] = set(self.dlv[i])
        self.msgs.append(m)
        self.dlv[i].add(k)
        return k

    def _proc(self, j, k):
        m = self.msgs[k]
        if m["op"] == "c":
            self.view[j] = set(m["arg"])
        elif m["op"] == "a":
            if m["arg"] == j:
                self.view[j] = set(m["hist"]) | {j}
                self.knows[j] |= m["bundle"]
            else:
                self.view[j].add(m["arg"])
        elif m["op"] == "r":
            self.view[j].discard(m["arg"])
        if m["op"] != "a" and j in m["rcpt"]:
            self.knows[j].add(k)
        if j in self.view[j]:
            self.w[j] = True

    def can_deliver(self, j, k):
        return k < len(self.msgs) and k not in self.dlv[j] and self.msgs[k]["past"] <= self.dlv[j]

    def deliver(self, j, k):
        if k >= len(self.msgs) or k in self.dlv[j]:
            return
        m = self.msgs[k]
        self.dlv[j].add(k)
        if self.w[j]:
            if m["op"] != "c":
                self._proc(j, k)
        elif (m["op"] == "c" and j in m["arg"]) or (m["op"] == "a" and m["arg"] == j):
            for q in self.queued[j] + [k]:
                self._proc(j, q)
            self.queued[j] = []
        else:
            self.queued[j].append(k)

    def quiesce(self):
        for k in range(len(self.msgs)):
            for j in range(self.n):
                if k not in self.dlv[j]:
                    self.deliver(j, k)

    def members(self):
        return [j for j in range(self.n) if self.w[j] and j in self.view[j]]


def _apply(sim, ev):
    k = ev[0]
    if k == "c":
        i, ms = ev[1:].split(":")
        return sim.issue(int(i), "c", [int(c) for c in ms])
    if k in "ar":
        i, j = ev[1:].split(":")
        return sim.issue(int(i), k, int(j))
    if k == "u":
        return sim.issue(int(ev[1:]), "u", None)
    if k == "d":
        j, m = ev[1:].split(":")
        sim.deliver(int(j), int(m))
    elif k == "q":
        sim.quiesce()
    return None


def _one(rng, tier):
    big = tier != "quick"
    n = rng.randint(3, 6 if big else 5)
    nops = rng.randint(3, 24 if big else 11)
    sequential = rng.random() < 0.55
    sim = Sim(n)
    evs = []
    creator = rng.randrange(n)
    init = [j for j in range(n) if j != creator and rng.random() < 0.6]
    if not init:
        init = [(creator + 1) % n]
    ev = "c%d:%s" % (creator, "".join(map(str, sorted(set(init + [creator]))) if rng.random() < 0.5 else "".join(map(str, init))))
    evs.append(ev)
    _apply(sim, ev)
    if sequential or rng.random() < 0.5:
        evs.append("q")
        sim.quiesce()
    for _ in range(nops):
        mem = sim.members()
        if not mem:
            break
        r = rng.random()
        rogue = rng.random() < 0.06
        cands = [j for j in range(n) if sim.w[j]] if rogue else mem
        i = rng.choice(cands)
        kind = rng.random()
        if kind < 0.36:
            outside = [j for j in range(n) if j not in sim.view[i]]
            if outside and i in sim.view[i]:
                ev = "a%d:%d" % (i, rng.choice(outside))
            else:
                ev = "u%d" % i
        elif kind < 0.66:
            inside = [j for j in sim.view[i] if j != i or rng.random() < 0.15]
            if len(sim.view[i]) > 2 and inside:
                ev = "r%d:%d" % (i, rng.choice(sorted(inside)))
            else:
                ev = "u%d" % i
        elif kind < 0.97:
            ev = "u%d" % i
        else:
            # error paths: an unwelcomed member tries something / adding ourselves
            ev = rng.choice(["u%d" % rng.randrange(n), "a%d:%d" % (i, i)])
        evs.append(ev)
        _apply(sim, ev)
        if sequential:
            if rng.random() < 0.5:
                evs.append("q")
                sim.quiesce()
            else:
                # deliver the new message to everybody in a random order
                k = len(sim.msgs) - 1
                order = list(range(n))
                rng.shuffle(order)
                sim_before = None
                for j in order:
                    if sim.can_deliver(j, k):
                        evs.append("d%d:%d" % (j, k))
                        sim.deliver(j, k)
                evs.append("q")
                sim.quiesce()
            if rng.random() < 0.25:
                evs.append("p")
        else:
            # some random causal deliveries
            for _ in range(rng.randint(0, 2 * n)):
                opts = [(j, k) for j in range(n) for k in range(len(sim.msgs)) if sim.can_deliver(j, k)]
                if not opts:
                    break
                j, k = rng.choice(opts)
                evs.append("d%d:%d" % (j, k))
                sim.deliver(j, k)
            if rng.random() < 0.2:
                evs.append("q")
                sim.quiesce()
                evs.append("p")
    # final: deliver the rest in a random causal order, then probe
    while True:
        opts = [(j, k) for j in range(n) for k in range(len(sim.msgs)) if sim.can_deliver(j, k)]
        if not opts or rng.random() < 0.05:
            break
        j, k = rng.choice(opts)
        evs.append("d%d:%d" % (j, k))
        sim.deliver(j, k)
    evs += ["q", "p"]
    return {"n": n, "evs": evs}


def gen(tier, rng):
    # scripted histories first: the crate's own scenarios and the boundary ones
    yield {"n": 3, "evs": ["c0:012", "q", "p", "r1:2", "q", "p"]}                      # post_compromise_security
    yield {"n": 4, "evs": ["c0:01", "q", "a0:2", "q", "a1:3", "q", "p", "r2:0", "q", "u3", "q", "p", "a1:0", "q", "p"]}
    yield {"n": 3, "evs": ["c0:1", "u1", "d1:0", "u1", "u0", "q", "p"]}                # member 2 never joins; op before welcome fails
    yield {"n": 4, "evs": ["c0:012", "q", "r0:1", "r2:1", "q", "p", "u1", "q", "p"]}   # double remove, removed member updates
    for _ in range(200 if tier == "quick" else 1500):
        yield _one(rng, tier)


def harness_line(case):
    return "set %d %s" % (case["n"], " ".join(case["evs"]))


def _nl(xs):
    return "[" + "; ".join(str(x) for x in xs) + "]"


def _events(case):
    out = []
    for e in case["evs"]:
        k = e[0]
        if k == "c":
            i, ms = e[1:].split(":")
            out.append("Issue %s (Create %s)" % (i, _nl([int(c) for c in ms])))
        elif k == "a":
            i, j = e[1:].split(":")
            out.append("Issue %s (Add %s)" % (i, j))
        elif k == "r":
            i, j = e[1:].split(":")
            out.append("Issue %s (Remove %s)" % (i, j))
        elif k == "u":
            out.append("Issue %s Update" % e[1:])
        elif k == "d":
            j, m = e[1:].split(":")
            out.append("Deliver %s %s" % (j, m))
        elif k == "q":
            out.append("Quiesce")
        else:
            out.append("Probe")
    return "[" + "; ".join(out) + "]"


def coq_model(case):
    return "model_line %d %s" % (case["n"], _events(case))


_PROBE = re.compile(r"P\[([^\]]*)\]")
_CELL = {"1": "C1", "0": "C0", "n": "CN", "x": "CX", "w": "CX", "_": "CSelf"}


def _parse_probe(body):
    order, members, rows = [], [], []
    for t in body.split():
        if t[0] == "T":
            order = [int(x) for x in t[1:].split(",") if x]
        elif t[0] == "m":
            f = t.split(":")
            kn = [int(x) if x != "?" else 999999 for x in f[3][1:].split(",") if x]
            lat = f[4][1:]
            members.append(dict(w=f[1] == "w1", view=[int(c) for c in f[2][1:]], knows=kn,
                                latest=None if lat == "-" else (999999 if lat == "?" else int(lat))))
        elif t[0] == "x":
            head, cells = t[1:].split(":", 1)
            i, s = head.split(".")
            rows.append((int(i), int(s), cells))
    return order, members, rows


def _probes(impl):
    return [_parse_probe(b) for b in _PROBE.findall(impl)]


def _has_err(impl):
    rest = _PROBE.sub("P", impl)
    for t in rest.split():
        if t.startswith("q["):
            if "E" in t:
                return True
    # delivery errors: tokens E:.. at positions of d events are found by position below
    return False


def coq_oracle(case, impl):
    toks = _PROBE.sub("P", impl).split()
    errs = _has_err(impl)
    for e, t in zip(case["evs"], toks):
        if e[0] == "d" and t.startswith("E:"):
            errs = True
    ps = []
    for order, members, rows in _probes(impl):
        ms = "; ".join("{| pm_w := %s; pm_view := %s; pm_knows := %s; pm_latest := %s |}" % (
            "true" if m["w"] else "false", _nl(m["view"]), _nl(m["knows"]),
            "None" if m["latest"] is None else "Some %d" % m["latest"]) for m in members)
        rs = "; ".join("(%d, %d, [%s])" % (i, s, "; ".join(_CELL.get(c, "CX") for c in (cells if not cells.startswith("E:") else "")))
                       for i, s, cells in rows)
        ps.append("{| po_order := %s; po_members := [%s]; po_rows := [%s] |}" % (_nl(order), ms, rs))
    return "check %d %s %s [%s]" % (case["n"], _events(case), "true" if errs else "false", "; ".join(ps))


def _canon(line):
    line = re.sub(r"\bT[\d,]* ", "", line)
    line = re.sub(r":l[\d?-]+", "", line)
    line = re.sub(r"E:[\w.]*", "E:", line)
    return line


def agree(case, impl, model):
    return _canon(impl) == _canon(model)


def nontrivial(case, impl):
    kinds = {e[0] for e in case["evs"]}
    ps = _probes(impl)
    if not ps:
        return False
    order, members, rows = ps[-1]
    return "a" in kinds and "r" in kinds and len(order) >= 3 and sum(1 for m in members if m["w"]) >= 3


def known(case, impl):
    """'concurrent-add-misses-secret' iff everything but P1 is as the knowledge model says, some add is
    concurrent with the generation of the newest secret, and every current member lacking that secret
    was added (concurrently or later) with a welcome bundle that did not contain it."""
    sim = Sim(case["n"])
    ps = _probes(impl)
    pi = 0
    hit = False
    for e in case["evs"]:
        if e[0] != "p":
            _apply(sim, e)
            continue
        if pi >= len(ps):
            return None
        order, members, rows = ps[pi]
        pi += 1
        if len(members) != sim.n:
            return None
        for j, m in enumerate(members):
            if m["w"] != sim.w[j] or set(m["view"]) != sim.view[j] or set(m["knows"]) != sim.knows[j]:
                return None
        for i, s, cells in rows:
            for j, c in enumerate(cells):
                exp = "_" if j == i else ("n" if not sim.w[j] else ("1" if s in sim.knows[j] else "0"))
                if c != exp:
                    return None
        if not order:
            continue
        latest = order[-1]
        lacking = [j for j in sim.members() if latest not in sim.knows[j]]
        if not lacking:
            continue
        # root cause: some add is concurrent with the operation that generated the newest secret
        root = [k for k, m in enumerate(sim.msgs) if m["op"] == "a" and latest not in m["past"]
                and k not in sim.msgs[latest]["past"]]
        if not root:
            return None
        for j in lacking:
            # j was (re-)added by a welcome without that secret, issued concurrently with or after its
            # generation (directly concurrent, or by somebody who missed it through a concurrent add)
            adds = [k for k, m in enumerate(sim.msgs) if m["op"] == "a" and m["arg"] == j
                    and latest not in m["bundle"] and k not in sim.msgs[latest]["past"]]
            if not adds:
                return None
            hit = True
    return "concurrent-add-misses-secret" if hit else None


def shrink(case):
    evs = case["evs"]
    for i in range(len(evs) - 1, 0, -1):
        if evs[i] in ("q", "p") and i >= len(evs) - 2:
            continue
        cand = evs[:i] + evs[i + 1:]
        # message numbers shift when an operation is dropped: only drop deliveries/probes and trailing operations
        if evs[i][0] in "dqp":
            yield dict(case, evs=cand)
        elif all(e[0] not in "d" for e in evs[i + 1:]):
            yield dict(case, evs=cand)


def distribution(cases, impl):
    kinds = {}
    sizes = {}
    errs = 0
    for i, c in enumerate(cases):
        sizes[c["n"]] = sizes.get(c["n"], 0) + 1
        for e in c["evs"]:
            kinds[e[0]] = kinds.get(e[0], 0) + 1
        if "E:" in (impl.get(i) or ""):
            errs += 1
    return {"cases": len(cases), "members": {str(k): v for k, v in sorted(sizes.items())},
            "event_kinds": dict(sorted(kinds.items())), "cases_with_rejected_operation": errs,
            "mean_events": round(sum(len(c["evs"]) for c in cases) / len(cases), 1)}
