"""C38 — Expired or invalid key bundles are never accepted or used."""

ID = "C38"
HARNESS_PKG = "h_enc_a"
HARNESS_ARGS = ["c38"]
HARNESS_PROCS = 16
COQ_IMPORTS = "From PV Require Import Model.KeyRegistry Oracle.C38."
TECHNIQUE = ("Coq proof (over ARBITRARY registry states and arbitrary operation sequences with the clock as an explicit, arbitrary input) + differential "
             "correspondence of the Gallina model with the real KeyRegistry against the real clock (lifetimes placed around now, real 1 s waits, "
             "identical bundles registered again, registry states restored through serde)")
LEVEL_TEXT = ("Proved in Coq from ANY registry state (not only states built by add_*) and for every sequence of add_onetime / add_longterm / key_bundle "
              "(one-time and long-term) / remove_expired / restore-a-member's-list operations with arbitrary clock readings between them: "
              "C38_never_accept_invalid_onetime/_longterm, C38_rejected_not_stored, C38_never_accept_or_return_invalid (everything accepted is valid "
              "when accepted, everything returned is valid — lifetime and signature — when returned), C38_get_valid_from_any_state + "
              "C38_get_returns_stored (the getters over arbitrary stored lists), C38_readd_requires_valid (an already stored bundle is accepted again "
              "only if valid at that time, then the registry is unchanged; otherwise rejected), C38_longterm_is_furthest. The model is the registry after "
              "the repairs 'fix: skip expired one-time key bundles' and 'fix: latest_key_bundle verifies the whole key bundle'; "
              "C38_never_return_invalid_before_fix_refuted and C38_longterm_from_any_state_before_fix_refuted (+ _outside_known) keep the witnesses "
              "against the code as found. The model is tied to key_registry.rs / lifetime.rs / key_bundle.rs on every run with real XEdDSA signatures "
              "(valid and foreign-key) and real time: bundles that are not yet valid, valid, expired, bundles that expire while stored (1-3 real "
              "seconds), the identical bundle registered again before/at/after its expiry, and registry states restored from CBOR bytes holding "
              "arbitrary mixes of such bundles in arbitrary order.")
LEVEL_NOTE = ("Trusted: Coq kernel + vm_compute; hand-written model; XEdDSA abstracted to 'signature verifies or not'; bundle equality (derived PartialEq) "
              "modelled as 'same pool entry'; the identities map and its IdentityKeyMismatch check are not modelled (one identity key per member in the "
              "runs); the wall clock is read at second granularity and the harness re-runs a case whose segment crossed a second boundary; "
              "harness/python glue. Correspondence is differential testing.")
ASSUMPTIONS = ["XEdDSA verification is a function of (pre-key bytes, identity key, signature); a signature made with a different secret does not verify",
               "one identity key per member id (the registry rejects a second one)",
               "correspondence runs: the wall clock advances by one second per harness wait (checked, case re-run otherwise)"]
TRUSTED = ["modelled not verified: XEdDSA, derived PartialEq of bundles, SystemTime, HashMap/Vec, serde"]
RULE = ("each case: up to 6 bundles with lifetimes (T0+a, T0+b), a/b around the real clock (boundaries a = 0, b = 0, b = 1 included: both ends are strict; "
        "not-yet-valid bundles with expiries up to +3600), valid or foreign signatures, 1-3 members; (i) random sequences of add one-time / add long-term "
        "(the identical bundle may be added again) / fetch one-time / fetch long-term / remove_expired / count; (ii) re-registration histories: a bundle "
        "registered while valid and registered again before, at and after its expiry; (iii) restored states: a member's one-time / long-term Vec replaced "
        "through the serde representation (CBOR bytes) by an arbitrary list of pool bundles, then getters/adds/remove_expired. "
        "quick: 240 + 50 + 250 cases without waiting and 32 + 24 + 16 cases with 1-3 real one-second waits; thorough: 3000 + 600 + 3000 and 240 + 160 + 120. "
        "non-trivial = a bundle accepted and one rejected/skipped/expired and one returned (random); a re-add plus an answer (re-registration); "
        "a restored list of >= 2 bundles and a getter answer (restored)")
NONTRIVIAL_FLOOR = 20


def _case(rng, waits):
    nb = rng.randint(2, 6)
    pool = []
    for _ in range(nb):
        kind = rng.random()
        if kind < 0.15:      # not yet valid
            a = rng.randint(0, 3)
            b = a + rng.randint(0, 4)
        elif kind < 0.3:     # already expired
            b = rng.randint(-3, 0)
            a = b - rng.randint(0, 4)
        else:                # valid now, expiring soon or later
            a = rng.randint(-4, -1)
            b = rng.randint(1, 5) if waits else rng.choice([1, 1, 2, 5, 60])
        pool.append([a, b, 0 if rng.random() < 0.15 else 1])
    members = rng.randint(1, 3)
    ops = []
    added = set()
    w = 0
    if waits and rng.random() < 0.7:
        # make sure something valid is stored (both kinds) before time passes
        valid = [k for k, b in enumerate(pool) if b[0] < 0 < b[1] and b[2]]
        if valid:
            k, m = rng.choice(valid), rng.randrange(members)
            for kind in ("al", "ao"):
                added.add((kind, m, k))
                ops.append("%s:%d:%d" % (kind, m, k))
    for _ in range(rng.randint(3, 14)):
        c = rng.random()
        if c < 0.45:
            kind = rng.choice(["ao", "ao", "al"])
            m, k = rng.randrange(members), rng.randrange(nb)
            if (kind, m, k) in added and rng.random() < 0.6:
                continue
            added.add((kind, m, k))
            ops.append("%s:%d:%d" % (kind, m, k))
        elif c < 0.65:
            ops.append("go:%d" % rng.randrange(members))
        elif c < 0.8:
            ops.append("gl:%d" % rng.randrange(members))
        elif c < 0.87:
            ops.append("rx")
        elif c < 0.91:
            ops.append("cn:%d" % rng.randrange(members))
        elif w < waits:
            ops.append("w")
            w += 1
    while w < waits and rng.random() < 0.7:
        ops.append("w")
        w += 1
        ops.append(rng.choice(["go:%d", "gl:%d"]) % rng.randrange(members))
        if rng.random() < 0.5:
            ops.append("go:%d" % rng.randrange(members))
    return {"pool": pool, "ops": ops}


def _readd_case(rng, waits):
    """One bundle registered while valid and registered again (the identical bundle) at later times:
    before its expiry, in the second it expires, after it."""
    end = rng.randint(1, 3) if waits else rng.choice([1, 2, 5, 60])
    pool = [[rng.randint(-4, -1), end, 1], [rng.randint(-4, -1), rng.choice([1, 2, 3, 60]), 1]]
    if rng.random() < 0.4:
        pool.append([rng.randint(-4, -1), rng.randint(1, 3), 0])
    m = rng.randrange(2)
    ops = ["al:%d:0" % m]
    if rng.random() < 0.7:
        ops.append("ao:%d:0" % m)
    if rng.random() < 0.5:
        ops.append("al:%d:%d" % (m, rng.randrange(len(pool))))
    if rng.random() < 0.5:
        ops += ["al:%d:0" % m, "cn:%d" % m]
    for _ in range(waits):
        ops.append("w")
        ops.append("al:%d:0" % m)
        if rng.random() < 0.5:
            ops.append("ao:%d:0" % m)
        if rng.random() < 0.4:
            ops.append("gl:%d" % m)
    ops += ["cn:%d" % m, "gl:%d" % m, "go:%d" % m, "go:%d" % m]
    if rng.random() < 0.3:
        ops += ["rx", "al:%d:0" % m, "cn:%d" % m]
    return {"pool": pool, "ops": ops}


def _restored_case(rng, waits):
    """Registry state restored from persistence: arbitrary mixes of valid / expired / not-yet-valid /
    foreign-signature bundles in arbitrary list order, then the getters at the current time."""
    nb = rng.randint(2, 6)
    pool = []
    for _ in range(nb):
        kind = rng.random()
        if kind < 0.3:       # not yet valid, usually with a late expiry
            a = rng.randint(0, 3)
            b = a + rng.choice([0, 1, 2, 5, 60, 3600])
        elif kind < 0.5:     # already expired
            b = rng.randint(-3, 0)
            a = b - rng.randint(0, 4)
        else:                # valid now (added "slightly in the past")
            a = rng.randint(-4, -1)
            b = rng.randint(1, 5) if waits else rng.choice([1, 2, 3, 5, 60])
        pool.append([a, b, 0 if rng.random() < 0.15 else 1])
    members = rng.randint(1, 2)
    ops = []

    def restore(kind, m):
        ks = [rng.randrange(nb) for _ in range(rng.randint(0, min(nb + 1, 5)))]
        if rng.random() < 0.7:
            ks = list(dict.fromkeys(ks))
        return "%s:%d:%s" % (kind, m, ".".join(map(str, ks)))

    m = rng.randrange(members)
    if rng.random() < 0.4:   # something registered the regular way first
        k = rng.randrange(nb)
        ops.append("%s:%d:%d" % (rng.choice(["al", "ao"]), m, k))
    ops.append(restore("sl", m))
    if rng.random() < 0.7:
        ops.append(restore("so", m))
    w = 0
    for _ in range(rng.randint(3, 9)):
        c = rng.random()
        mm = m if rng.random() < 0.8 else rng.randrange(members)
        if c < 0.3:
            ops.append("gl:%d" % mm)
        elif c < 0.55:
            ops.append("go:%d" % mm)
        elif c < 0.65:
            ops.append("cn:%d" % mm)
        elif c < 0.75:
            ops.append("%s:%d:%d" % (rng.choice(["al", "al", "ao"]), mm, rng.randrange(nb)))
        elif c < 0.8:
            ops.append("rx")
        elif c < 0.87:
            ops.append(restore(rng.choice(["sl", "so"]), mm))
        elif w < waits:
            ops.append("w")
            w += 1
    while w < waits:
        ops += ["w", "gl:%d" % m, "go:%d" % m]
        w += 1
    ops += ["gl:%d" % m, "cn:%d" % m]
    return {"pool": pool, "ops": ops}


def gen(tier, rng):
    quick = tier == "quick"
    # the design-phase witness shapes: valid for 2 s, fetched after 3 s
    yield {"pool": [[-1, 2, 1]], "ops": ["ao:0:0", "w", "w", "w", "go:0"]}
    yield {"pool": [[-1, 2, 1], [-1, 9, 1]], "ops": ["ao:0:1", "ao:0:0", "al:0:0", "w", "w", "go:0", "gl:0", "go:0", "go:0"]}
    yield {"pool": [[-1, 1, 1]], "ops": ["ao:0:0", "al:0:0", "go:0", "gl:0"]}
    yield {"pool": [[0, 5, 1], [-1, 0, 1], [-1, 1, 0]], "ops": ["ao:0:0", "ao:0:1", "ao:0:2", "al:0:0", "al:0:1", "al:0:2", "go:0", "gl:0"]}
    for _ in range(240 if quick else 3000):
        yield _case(rng, 0)
    for _ in range(50 if quick else 600):
        yield _readd_case(rng, 0)
    for _ in range(250 if quick else 3000):
        yield _restored_case(rng, 0)
    for _ in range(32 if quick else 240):
        yield _case(rng, rng.randint(1, 3))
    for _ in range(24 if quick else 160):
        yield _readd_case(rng, rng.randint(1, 3))
    for _ in range(16 if quick else 120):
        yield _restored_case(rng, rng.randint(1, 2))


def harness_line(case):
    return ",".join("%d:%d:%d" % tuple(b) for b in case["pool"]) + " ; " + " ".join(case["ops"])


T0 = 1000


def _bundle(case, k):
    a, b, s = case["pool"][k]
    return "{| nb := %d%%N; na := %d%%N; sig_ok := %s; tag := %d%%N |}" % (T0 + a, T0 + b, "true" if s else "false", k)


def _ops(case):
    t = T0
    out = []
    for op in case["ops"]:
        f = op.split(":")
        if f[0] == "w":
            t += 1
        elif f[0] == "ao":
            out.append("AddOT %d%%N %s%%N (%s)" % (t, f[1], _bundle(case, int(f[2]))))
        elif f[0] == "al":
            out.append("AddLT %d%%N %s%%N (%s)" % (t, f[1], _bundle(case, int(f[2]))))
        elif f[0] == "go":
            out.append("GetOT %d%%N %s%%N" % (t, f[1]))
        elif f[0] == "gl":
            out.append("GetLT %d%%N %s%%N" % (t, f[1]))
        elif f[0] == "rx":
            out.append("RemoveExpired %d%%N" % t)
        elif f[0] in ("so", "sl"):
            # harness list is in push order; the model keeps a member's Vec newest-first
            ks = [int(x) for x in f[2].split(".") if x] if len(f) > 2 else []
            out.append("%s %d%%N %s%%N [%s]" % ("SetOT" if f[0] == "so" else "SetLT", t, f[1],
                                               ";".join(_bundle(case, k) for k in reversed(ks))))
        elif f[0] == "cn":
            out.append("Count %d%%N %s%%N" % (t, f[1]))
        else:
            raise ValueError(op)
    return "[" + ";".join(out) + "]"


def coq_model(case):
    return "model_line %s" % _ops(case)


def coq_oracle(case, impl):
    obs = []
    for t in impl.split():
        if t == "A":
            obs.append("OA")
        elif t in ("RL", "RS"):
            obs.append("OR")
        elif t == "G-":
            obs.append("(OG None true)")
        elif t.startswith("G") and t[1:2].isdigit():
            k, _, v = t[1:].partition(":")
            obs.append("(OG (Some %d%%N) %s)" % (int(k), "true" if v == "ok" else "false"))
        elif t == "E":
            obs.append("OE")
        elif t == "D":
            obs.append("OD")
        elif t.startswith("N"):
            obs.append("ON")
        else:
            raise ValueError(t)
    pool = "[" + ";".join(_bundle(case, k) for k in range(len(case["pool"]))) + "]"
    return "check %s %s [%s]" % (pool, _ops(case), ";".join(obs))


def _restored(case):
    return any(o.startswith(("so:", "sl:")) for o in case["ops"])


def _readds(case):
    """number of add operations that register a (member, bundle) pair registered before"""
    seen, n = set(), 0
    for o in case["ops"]:
        if o.startswith(("ao:", "al:")):
            n += o in seen
            seen.add(o)
    return n


def nontrivial(case, impl):
    toks = impl.split()
    skipped = any(t in ("RL", "RS", "E") or t == "G-" for t in toks)
    got = any(t.startswith("G") and t != "G-" for t in toks)
    if _restored(case):
        # a restored list with more than one bundle, and the getters both answered and refused
        return any(o.startswith(("so:", "sl:")) and "." in o for o in case["ops"]) and (got or skipped)
    if _readds(case):
        return "A" in toks and (got or skipped)
    return "A" in toks and skipped and got


def shrink(case):
    ops = case["ops"]
    for i in range(len(ops)):
        yield {"pool": case["pool"], "ops": ops[:i] + ops[i + 1:]}


def distribution(cases, impl):
    cnt = {}
    for v in impl.values():
        for t in v.split():
            k = "G<k>" if t.startswith("G") and t != "G-" else ("N<a>/<b>" if t.startswith("N") else t)
            cnt[k] = cnt.get(k, 0) + 1
    return {"answers": cnt, "cases_with_restored_state": sum(1 for c in cases if _restored(c)),
            "cases_re_adding_an_identical_bundle": sum(1 for c in cases if _readds(c)),
            "identical_re_adds_after_a_wait": sum(1 for c in cases if _readds(c) and "w" in c["ops"]),
            "cases_with_real_waits": sum(1 for c in cases if "w" in c["ops"]),
            "waits_total_seconds": sum(c["ops"].count("w") for c in cases),
            "bundles_with_foreign_signature": sum(1 for c in cases for b in c["pool"] if not b[2])}
