"""C38 — Expired or invalid key bundles are never accepted or used."""

ID = "C38"
HARNESS_PKG = "h_enc_a"
HARNESS_ARGS = ["c38"]
HARNESS_PROCS = 16
COQ_IMPORTS = "From PV Require Import Model.KeyRegistry Oracle.C38."
TECHNIQUE = ("Coq proof (invariant over arbitrary operation sequences with the clock as an explicit, arbitrary input) + differential "
             "correspondence of the Gallina model with the real KeyRegistry against the real clock (lifetimes placed around now, real 1 s waits)")
LEVEL_TEXT = ("Proved in Coq for every sequence of add_onetime / add_longterm / key_bundle (one-time and long-term) / remove_expired operations with "
              "arbitrary clock readings between them: C38_never_accept_invalid_onetime/_longterm, C38_rejected_not_stored, "
              "C38_never_accept_or_return_invalid (everything accepted is valid when accepted, everything returned is valid — lifetime and signature — "
              "when returned), C38_longterm_is_furthest. The model is the registry after the repair 'fix: skip expired one-time key bundles'; "
              "C38_never_return_invalid_before_fix_refuted keeps the witness against the code as found. The model is tied to key_registry.rs / lifetime.rs "
              "/ key_bundle.rs on every run with real XEdDSA signatures (valid and foreign-key) and real time: bundles that are not yet valid, valid, "
              "expired, and bundles that expire while stored (1-3 real seconds).")
LEVEL_NOTE = ("Trusted: Coq kernel + vm_compute; hand-written model; XEdDSA abstracted to 'signature verifies or not'; the identities map and its "
              "assert_eq! sanity check are not modelled (one identity key per member in the runs); the wall clock is read at second granularity and the "
              "harness re-runs a case whose segment crossed a second boundary; harness/python glue. Correspondence is differential testing.")
ASSUMPTIONS = ["XEdDSA verification is a function of (pre-key bytes, identity key, signature); a signature made with a different secret does not verify",
               "one identity key per member id (the registry asserts this)",
               "correspondence runs: the wall clock advances by one second per harness wait (checked, case re-run otherwise)"]
TRUSTED = ["modelled not verified: XEdDSA, SystemTime, HashMap/Vec"]
RULE = ("each case: up to 6 bundles with lifetimes (T0+a, T0+b), a/b in -3..+4 around the real clock (boundaries a = 0, b = 0, b = 1 included: both ends are strict), "
        "valid or foreign signatures, 1-3 members; random sequences of add one-time / add long-term / fetch one-time / fetch long-term / remove_expired; "
        "quick: 400 cases without waiting + 48 cases with 1-3 real one-second waits (bundles expire while stored); thorough: 4000 + 320. "
        "non-trivial = at least one bundle accepted and at least one rejected or skipped/expired at fetch time")
NONTRIVIAL_FLOOR = 20


def _case(rng, waits):
    nb = rng.randint(2, 6)
    pool = []
    for _ in range(nb):
        kind = rng.random()
        if kind < 0.15:      # not yet valid
            a = rng.randint(0, 3)
            b = a + rng.randint(0, 4)
        elif kind < 0.3:     # already expired
            b = rng.randint(-3, 0)
            a = b - rng.randint(0, 4)
        else:                # valid now, expiring soon or later
            a = rng.randint(-4, -1)
            b = rng.randint(1, 5) if waits else rng.choice([1, 1, 2, 5, 60])
        pool.append([a, b, 0 if rng.random() < 0.15 else 1])
    members = rng.randint(1, 3)
    ops = []
    added = set()
    w = 0
    if waits and rng.random() < 0.7:
        # make sure something valid is stored (both kinds) before time passes
        valid = [k for k, b in enumerate(pool) if b[0] < 0 < b[1] and b[2]]
        if valid:
            k, m = rng.choice(valid), rng.randrange(members)
            for kind in ("al", "ao"):
                added.add((kind, m, k))
                ops.append("%s:%d:%d" % (kind, m, k))
    for _ in range(rng.randint(3, 14)):
        c = rng.random()
        if c < 0.45:
            kind = rng.choice(["ao", "ao", "al"])
            m, k = rng.randrange(members), rng.randrange(nb)
            if (kind, m, k) in added:
                continue
            added.add((kind, m, k))
            ops.append("%s:%d:%d" % (kind, m, k))
        elif c < 0.65:
            ops.append("go:%d" % rng.randrange(members))
        elif c < 0.8:
            ops.append("gl:%d" % rng.randrange(members))
        elif c < 0.87:
            ops.append("rx")
        elif w < waits:
            ops.append("w")
            w += 1
    while w < waits and rng.random() < 0.7:
        ops.append("w")
        w += 1
        ops.append(rng.choice(["go:%d", "gl:%d"]) % rng.randrange(members))
        if rng.random() < 0.5:
            ops.append("go:%d" % rng.randrange(members))
    return {"pool": pool, "ops": ops}


def gen(tier, rng):
    quick = tier == "quick"
    # the design-phase witness shapes: valid for 2 s, fetched after 3 s
    yield {"pool": [[-1, 2, 1]], "ops": ["ao:0:0", "w", "w", "w", "go:0"]}
    yield {"pool": [[-1, 2, 1], [-1, 9, 1]], "ops": ["ao:0:1", "ao:0:0", "al:0:0", "w", "w", "go:0", "gl:0", "go:0", "go:0"]}
    yield {"pool": [[-1, 1, 1]], "ops": ["ao:0:0", "al:0:0", "go:0", "gl:0"]}
    yield {"pool": [[0, 5, 1], [-1, 0, 1], [-1, 1, 0]], "ops": ["ao:0:0", "ao:0:1", "ao:0:2", "al:0:0", "al:0:1", "al:0:2", "go:0", "gl:0"]}
    for _ in range(400 if quick else 4000):
        yield _case(rng, 0)
    for _ in range(48 if quick else 320):
        yield _case(rng, rng.randint(1, 3))


def harness_line(case):
    return ",".join("%d:%d:%d" % tuple(b) for b in case["pool"]) + " ; " + " ".join(case["ops"])


T0 = 1000


def _bundle(case, k):
    a, b, s = case["pool"][k]
    return "{| nb := %d%%N; na := %d%%N; sig_ok := %s; tag := %d%%N |}" % (T0 + a, T0 + b, "true" if s else "false", k)


def _ops(case):
    t = T0
    out = []
    for op in case["ops"]:
        f = op.split(":")
        if f[0] == "w":
            t += 1
        elif f[0] == "ao":
            out.append("AddOT %d%%N %s%%N (%s)" % (t, f[1], _bundle(case, int(f[2]))))
        elif f[0] == "al":
            out.append("AddLT %d%%N %s%%N (%s)" % (t, f[1], _bundle(case, int(f[2]))))
        elif f[0] == "go":
            out.append("GetOT %d%%N %s%%N" % (t, f[1]))
        elif f[0] == "gl":
            out.append("GetLT %d%%N %s%%N" % (t, f[1]))
        elif f[0] == "rx":
            out.append("RemoveExpired %d%%N" % t)
    return "[" + ";".join(out) + "]"


def coq_model(case):
    return "model_line %s" % _ops(case)


def coq_oracle(case, impl):
    obs = []
    for t in impl.split():
        if t == "A":
            obs.append("OA")
        elif t in ("RL", "RS"):
            obs.append("OR")
        elif t == "G-":
            obs.append("(OG None true)")
        elif t.startswith("G"):
            k, _, v = t[1:].partition(":")
            obs.append("(OG (Some %d%%N) %s)" % (int(k), "true" if v == "ok" else "false"))
        elif t == "E":
            obs.append("OE")
        elif t == "D":
            obs.append("OD")
        else:
            raise ValueError(t)
    pool = "[" + ";".join(_bundle(case, k) for k in range(len(case["pool"]))) + "]"
    return "check %s %s [%s]" % (pool, _ops(case), ";".join(obs))


def nontrivial(case, impl):
    toks = impl.split()
    return "A" in toks and any(t in ("RL", "RS", "E") or t == "G-" for t in toks) and any(t.startswith("G") and t != "G-" for t in toks)


def shrink(case):
    ops = case["ops"]
    for i in range(len(ops)):
        yield {"pool": case["pool"], "ops": ops[:i] + ops[i + 1:]}


def distribution(cases, impl):
    cnt = {}
    for v in impl.values():
        for t in v.split():
            k = "G<k>" if t.startswith("G") and t != "G-" else t
            cnt[k] = cnt.get(k, 0) + 1
    return {"answers": cnt, "cases_with_real_waits": sum(1 for c in cases if "w" in c["ops"]),
            "waits_total_seconds": sum(c["ops"].count("w") for c in cases),
            "bundles_with_foreign_signature": sum(1 for c in cases for b in c["pool"] if not b[2])}
