"""C20 — Each sync side sends exactly one Done, even under concurrent pruning."""
from . import _logsync as L

ID = "C20"
HARNESS_PKG = "h_logsync"
HARNESS_ARGS = ["c20"]
COQ_IMPORTS = "From PV Require Import Model.Dedup Model.LogSync Lib.LogSyncShow Oracle.C20."
COQ_SHARD = 60
TECHNIQUE = ("Coq proof (invariant tying the LogSync state machine to a recogniser of Have.(Done|PreSync.Operation*.Done), induction over "
             "arbitrary input sequences where every store call sees an arbitrary replica) + differential correspondence of the Gallina "
             "state machine with the real LogSync::run over a store wrapper that mutates the store before its k-th query")
LEVEL_TEXT = ("Theorems C20_message_grammar / C20_message_grammar_complete / C20_nothing_after_done are proved in Coq for every input sequence of "
              "the model of LogSync::run (any interleaving of store ticks, received messages - honest or not - and stream closure; every store "
              "call may see a different, arbitrary replica, which covers prune/delete/insert at every point; no bound). C20_unrepaired_refuted "
              "keeps the witness for the code as found (Have.Done.Done). The model is tied to p2panda-sync/src/protocols/log_sync.rs on every "
              "run: the real LogSync::run is driven with a scripted peer over a LogStore wrapper that prunes/deletes/inserts before the k-th store "
              "call (every k for base scenarios + random), and sink messages, result and number of store calls are compared with the model's; "
              "the grammar oracle is evaluated on the implementation's sink.")
LEVEL_NOTE = ("Trusted: Coq kernel + vm_compute; hand-written model (one Tick = up to the next store call or send; select! = any enabled arm); "
              "SQLite executes the queries as written; harness/python glue. Correspondence is differential testing. The live-mode consumer "
              "(topic_log_sync.rs) is not modelled: the theorem is about what LogSync::run puts on the sink.")
ASSUMPTIONS = ["every list of logs in the session configuration is non-empty (get_log_heights(author, []) is C08's defect)",
               "the environment changes the store only between store calls (each query is answered from one replica)"]
TRUSTED = ["modelled not verified: SQLite query semantics, CBOR decoding of received headers, broadcast channel has a receiver, u32 size sums do not overflow"]
RULE = ("quick: 4 base scenarios x every store-call index k=0..7 x {drop log, prune, delete one, insert} on the sending side, plus 120 random "
        "cases (1-3 authors, 1-2 logs, pruned prefixes/gaps, random peer Have, 0-2 store mutations, 0-3 foreign operations from the peer); "
        "thorough: 1200 random with larger logs. non-trivial = a mutation took effect before the last store call of the session")


def apply_muts(rep, muts):
    """-> sched [(k, rep_after)] for the distinct k's, ascending."""
    d = L.rep_dict(rep)
    sched = []
    for k in sorted({m[0] for m in muts}):
        for m in muts:
            if m[0] != k:
                continue
            kind, a, l = m[1], m[2], m[3]
            rows = d.get((a, l), [])
            if kind == "p":
                rows = [r for r in rows if r[0] >= m[4]]
            elif kind == "d":
                rows = [r for r in rows if r[0] != m[4]]
            elif kind == "x":
                rows = []
            elif kind == "i":
                if all(r[0] != m[4] for r in rows):
                    rows = sorted(rows + [[m[4], m[5]]])
            d[(a, l)] = rows
        sched.append((k, L.dict_rep(d)))
    return sched


def h_muts(muts):
    out = []
    for m in muts:
        k, kind, a, l = m[0], m[1], m[2], m[3]
        if kind == "x":
            out.append("%d:x.%d.%d" % (k, a, l))
        elif kind == "i":
            out.append("%d:i.%d.%d.%d/%d" % (k, a, l, m[4], m[5]))
        else:
            out.append("%d:%s.%d.%d.%d" % (k, kind, a, l, m[4]))
    return ";".join(out) or "-"


def peer_msgs(case):
    ms = ["Have %s" % L.g_heights(case["have"])]
    n = case.get("pops", 0)
    if n:
        ms.append("PreSync %d %d" % (n, 400 * n))
        for s in range(n):
            ms.append("Operation %d 0 (mkrow %d %d 400)" % (L.FOREIGN, s, L.op_id(L.FOREIGN, 0, s)))
    ms.append("Done")
    return "([" + ";".join(ms) + "])%N"


BASES = [
    {"logs": [[0, [0]]], "rep": [[0, 0, [[0, 500], [1, 510]]]], "have": [], "pops": 0},
    {"logs": [[0, [0, 1]], [1, [0]]], "rep": [[0, 0, [[0, 400], [1, 410], [2, 420]]], [0, 1, [[2, 600]]], [1, 0, [[0, 700], [1, 710]]]],
     "have": [[0, [[0, 0]]]], "pops": 2},
    {"logs": [[0, [0]], [1, [0]]], "rep": [[0, 0, [[3, 450], [4, 460]]], [1, 0, [[0, 333]]]], "have": [[1, [[0, 0]]]], "pops": 0},
    {"logs": [[0, [0]], [2, [1]]], "rep": [[0, 0, [[0, 500]]], [2, 1, [[0, 800], [1, 810], [2, 820], [3, 830]]]],
     "have": [[0, [[0, 0]]], [2, [[1, 1]]]], "pops": 1},
]


def gen(tier, rng):
    for b in BASES:
        yield dict(b, muts=[])
        keys = [(a, l, rows) for a, l, rows in b["rep"]]
        for k in range(0, 8):
            for a, l, rows in keys:
                top = rows[-1][0]
                yield dict(b, muts=[[k, "x", a, l]])
                yield dict(b, muts=[[k, "p", a, l, top]])
                yield dict(b, muts=[[k, "d", a, l, rows[0][0]]])
                yield dict(b, muts=[[k, "i", a, l, top + 1, 640]])
    n, maxlen = (120, 4) if tier == "quick" else (1200, 9)
    for _ in range(n):
        na = rng.randint(1, 3)
        authors = sorted(rng.sample(range(0, 5), na))
        logs, rep = [], []
        for a in authors:
            ls = sorted(rng.sample(range(0, 3), rng.randint(1, 2)))
            logs.append([a, ls])
            for l in ls:
                rows = L.rand_rows(rng, maxlen)
                if rows:
                    rep.append([a, l, rows])
        have = []
        for a, hs in L.heights_of(rep, logs):
            if rng.random() < 0.3:
                continue
            ent = []
            for l, h in hs:
                r = rng.random()
                if r < 0.25:
                    continue
                ent.append([l, max(0, h + rng.choice([-3, -2, -1, -1, 0, 1]))])
            if ent or rng.random() < 0.3:
                have.append([a, ent])
        muts = []
        for _ in range(rng.choice([0, 1, 1, 1, 2])):
            if not rep:
                break
            a, l, rows = rng.choice(rep)
            k = rng.randint(0, 7)
            kind = rng.choice("xpdi")
            if kind == "x":
                muts.append([k, "x", a, l])
            elif kind == "p":
                muts.append([k, "p", a, l, rng.choice(rows)[0] + rng.choice([0, 0, 1])])
            elif kind == "d":
                muts.append([k, "d", a, l, rng.choice(rows)[0]])
            else:
                muts.append([k, "i", a, l, rows[-1][0] + rng.randint(1, 2), rng.randint(480, 1200)])
        # two inserts of the same row would be two different operations with one seq_num: keep one
        seen, keep = set(), []
        for m in muts:
            if m[1] == "i":
                if (m[2], m[3], m[4]) in seen:
                    continue
                seen.add((m[2], m[3], m[4]))
            keep.append(m)
        yield {"logs": logs, "rep": rep, "have": have, "pops": rng.choice([0, 0, 1, 3]), "muts": keep}


def harness_line(case):
    return "logs=%s rep=%s mut=%s have=%s pops=%d" % (L.h_logs(case["logs"]), L.h_rep(case["rep"]), h_muts(case["muts"]),
                                                      L.h_have(case["have"]), case.get("pops", 0))


def coq_model(case):
    sched = "[" + ";".join("(%d%%nat,%s)" % (k, L.g_replica(r)) for k, r in apply_muts(case["rep"], case["muts"])) + "]"
    return "model_line %s %s %s %s" % (L.g_logs(case["logs"]), L.g_replica(case["rep"]), sched, peer_msgs(case))


def coq_oracle(case, impl):
    parts = [p.strip() for p in impl.split("|")]
    return "check %s %s" % (L.parse_msgs(parts[0]), "true" if parts[1] == "ok" else "false")


def nontrivial(case, impl):
    if not case["muts"] or "calls=" not in impl:
        return False
    calls = int(impl.split("calls=")[1].split()[0])
    return min(m[0] for m in case["muts"]) < calls


def shrink(case):
    for i in range(len(case["muts"])):
        yield dict(case, muts=case["muts"][:i] + case["muts"][i + 1:])
    for i in range(len(case["rep"])):
        a, l, rows = case["rep"][i]
        if len(rows) > 1:
            yield dict(case, rep=case["rep"][:i] + [[a, l, rows[1:]]] + case["rep"][i + 1:])
            yield dict(case, rep=case["rep"][:i] + [[a, l, rows[:-1]]] + case["rep"][i + 1:])
    if case.get("pops"):
        yield dict(case, pops=0)
    if case["have"]:
        yield dict(case, have=[])


def distribution(cases, impl):
    kinds, ks, shapes = {}, {}, {"have_done": 0, "presync": 0, "other": 0}
    for i, c in enumerate(cases):
        for m in c["muts"]:
            kinds[m[1]] = kinds.get(m[1], 0) + 1
            ks[str(m[0])] = ks.get(str(m[0]), 0) + 1
        line = impl.get(i, "")
        ms = line.split("|")[0].split()
        if len(ms) == 2 and ms[1] == "D":
            shapes["have_done"] += 1
        elif len(ms) > 2 and ms[1].startswith("P"):
            shapes["presync"] += 1
        else:
            shapes["other"] += 1
    return {"mutation_kinds": kinds, "mutation_at_store_call": ks, "sink_shapes": shapes,
            "max_ops_sent": max([len([t for t in impl.get(i, "").split("|")[0].split() if t.startswith("O")]) for i in range(len(cases))] or [0])}
