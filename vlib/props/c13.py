"""C13 — Processor streams deliver every output exactly once and in order."""
import json
import re

ID = "C13"
HARNESS_PKG = "h_c13"
COQ_IMPORTS = "From PV Require Import Model.Processors Oracle.C13."
FINDING = "composed_second_process_cancelled"
TECHNIQUE = ("Coq proof over a labelled transition system of Buffer / ComposedProcessors / ProcessorStream (invariant by induction over "
             "the label list = every schedule, every cancellation of next()) + refinement check: the event trace observed on the real "
             "code (real tokio select!/wake-ups, scripted yield-count delays) is replayed on the Gallina model")
LEVEL_TEXT = ("Proved in Coq for every schedule (label list), every number of layers and every processor effect function: "
              "C13_exactly_once_in_order_safe / C13_fifo_preserved_safe (layers with cancel-safe next(): single processors, and composed "
              "ones whose second.process never suspends — each layer delivers exactly the sequential run of its processors on what it "
              "received, per origin in order; end to end the Ok items are the chain specification), C13_outside_known (any shape, any "
              "schedule without an item-dropping Recv), C13_loss_accounting (an intermediate item can disappear only with a next() future "
              "dropped during the hand-over), C13_prefix_any_time (at every reachable state of a loss-free run a layer's emitted next()-outputs are a prefix of the sequential result: never a duplicate, never out of order), C13_progress (non-quiescent states have an enabled step), C13_composed_refuted (witness "
              "schedule: ComposedProcessors with a suspending second.process loses an item). Tie to the code: harness-defined processors "
              "(FIFO, group-reversing, failing in process/next, per-item yield-count delays) on the real Buffer, ComposedProcessors, "
              "PipelineBuilder and layered ProcessorStreams; the observed event trace must be a trace of the model ending quiescent with the "
              "same dropped items, and the oracle (= the theorem's predicate) is evaluated on the observed per-layer outputs.")
LEVEL_NOTE = ("PARTIAL: tokio's select! (any ready branch may win, losers dropped), unbounded mpsc, Notify and wake-ups are modelled as stated, "
              "not verified; delays are abstracted to 'label not yet taken'; termination of every schedule is not proved (progress only); "
              "compositions deeper than two processors per Buffer are not modelled. Known finding (open): ComposedProcessors::next drops "
              "the intermediate item when Buffer's select! cancels it during second.process(..).await.")
ASSUMPTIONS = ["tokio select!: a ready branch wins, the other future is dropped before the handler runs (modelled)",
               "tokio unbounded mpsc is FIFO and loss-free; Notify/yield_now wake-ups are not lost (modelled; exercised by the idle check of every run)",
               "processors behave as an effect function applied when process() completes, and their own next() dequeues and returns within one poll (true of the harness processors, Ingest, LogPrune)",
               "at most two processors are composed behind one Buffer"]
TRUSTED = ["modelled not verified: tokio select!/mpsc/Notify semantics, the glue between layers (Ok items forwarded, errors leave the chain)",
           "trace instrumentation lives in the harness-defined processors / source / glue closures (the anchored code is unmodified, no hook needed)"]
RULE = ("random streams of 1..3 layers (single or two composed processors per Buffer; FIFO / reverse-groups-of-k; process and next failures; "
        "per-item process delays, next delays, arrival gaps, consumer pauses all counted in yield_now) over 1..8 (quick) / 1..16 (thorough) "
        "distinct inputs; quick 170 random + 33 directed, thorough 800 + 66; non-trivial = at least two inputs entered before the first "
        "output left, or an item was dropped, or a failure output occurred")
COQ_SHARD = 40
REGISTERED = True
NONTRIVIAL_FLOOR = 20


# ------------------------------------------------------------------------------------------------
# generators
# ------------------------------------------------------------------------------------------------

def _pcfg(rng, values, tag, slow_ok=True):
    grp = 1 if rng.random() < 0.65 else rng.choice([2, 3])
    nd = rng.choice([0, 0, 1, 2])
    perrs = sorted(v for v in values if rng.random() < 0.08)
    nerrs = sorted(v for v in values if v not in perrs and rng.random() < 0.08)
    if not slow_ok or rng.random() < 0.4:
        pdel = [0]
    else:
        pdel = [rng.choice([0, 1, 1, 2, 3]) for _ in range(rng.randint(1, 3))]
    return {"tag": tag, "grp": grp, "nd": nd, "perrs": perrs, "nerrs": nerrs, "pdel": pdel}


def _case(rng, maxn, force=None):
    n = rng.randint(1, maxn)
    inputs = rng.sample(range(1, 3 * maxn + 1), n)
    if rng.random() < 0.5:
        inputs.sort()
    nl = rng.randint(1, 3)
    layers = []
    base = 0
    for k in range(nl):
        kind = force or ("C" if rng.random() < 0.45 else "S")
        vals = [x + base for x in inputs]
        t1 = 100 * rng.randint(1, 9) * (10 ** min(k, 1))
        p1 = _pcfg(rng, vals, t1)
        base += t1
        if kind == "S":
            layers.append({"kind": "S", "p": [p1]})
        else:
            vals = [x + base for x in inputs]
            t2 = 1000 * rng.randint(1, 9)
            p2 = _pcfg(rng, vals, t2, slow_ok=rng.random() < 0.6)
            base += t2
            layers.append({"kind": "C", "p": [p1, p2]})
    gaps = [rng.choice([0, 0, 1, 2, 3]) for _ in range(rng.randint(1, 3))]
    cgaps = [rng.choice([0, 0, 1, 2, 4]) for _ in range(rng.randint(1, 3))]
    return {"layers": layers, "inputs": inputs, "gaps": gaps, "cgaps": cgaps}


def _p(tag, pdel, grp=1, nd=0, perrs=(), nerrs=()):
    return {"tag": tag, "grp": grp, "nd": nd, "perrs": list(perrs), "nerrs": list(nerrs), "pdel": list(pdel)}


def _directed(tier):
    out = []
    ns = [2, 5, 12] if tier == "quick" else [2, 3, 6, 12, 20, 30]
    for n in ns:
        xs = list(range(1, n + 1))
        for d2 in (0, 1, 2):
            for gap in (0, 1, 2):
                # the design-phase probe: two FIFO processors composed, the second one slow
                out.append({"layers": [{"kind": "C", "p": [_p(100, [0]), _p(1000, [d2])]}], "inputs": xs, "gaps": [gap], "cgaps": [0]})
        # layered streams as the node pipeline builds them (each layer its own Buffer)
        out.append({"layers": [{"kind": "S", "p": [_p(100, [2])]}, {"kind": "S", "p": [_p(1000, [1], nd=1)]}], "inputs": xs, "gaps": [1], "cgaps": [0]})
        out.append({"layers": [{"kind": "S", "p": [_p(100, [1, 0], grp=2, perrs=[2], nerrs=[3])]}, {"kind": "S", "p": [_p(1000, [0])]},
                               {"kind": "S", "p": [_p(10000, [3])]}], "inputs": xs, "gaps": [0, 2], "cgaps": [1]})
    return out


def gen(tier, rng):
    for c in _directed(tier):
        yield c
    nrand, maxn = (170, 8) if tier == "quick" else (800, 16)
    for i in range(nrand):
        yield _case(rng, maxn, force="C" if i % 5 == 0 else None)


# ------------------------------------------------------------------------------------------------
# rendering
# ------------------------------------------------------------------------------------------------

def _lst(xs):
    return ".".join(map(str, xs)) if xs else "-"


def _hp(p):
    return "%d:%d:%d:%s:%s:%s" % (p["tag"], p["grp"], p["nd"], _lst(p["perrs"]), _lst(p["nerrs"]), _lst(p["pdel"]))


def harness_line(case):
    ls = " ".join("%s %s" % (l["kind"], " ".join(_hp(p) for p in l["p"])) for l in case["layers"])
    return "%s | %s | %s | %s" % (ls, ",".join(map(str, case["inputs"])), ",".join(map(str, case["gaps"])), ",".join(map(str, case["cgaps"])))


def _nl(xs):
    return "[" + ";".join("%d%%N" % x for x in xs) + "]"


def _cp(p):
    return "(mkP %d%%N %s %s %d [%s])" % (p["tag"], _nl(p["perrs"]), _nl(p["nerrs"]), p["grp"], ";".join(map(str, p["pdel"])))


def _ccfg(case):
    ls = []
    for l in case["layers"]:
        if l["kind"] == "S":
            ls.append("Single %s" % _cp(l["p"][0]))
        else:
            ls.append("Comp %s %s" % (_cp(l["p"][0]), _cp(l["p"][1])))
    return "[" + "; ".join(ls) + "]"


def _cres(t):
    return ("Ok %d%%N" if t[0] == "+" else "Er %d%%N") % int(t[1:])


def _cout(t):
    if t.startswith("q"):
        return "OQ (%s)" % _cres(t[1:])
    return "%s %d%%N" % ({"f": "OQ1", "a": "OP1", "b": "OP2"}[t[0]], int(t[1:]))


class Obs:
    """Parsed implementation line."""

    def __init__(self, case, impl):
        parts = [p.strip() for p in impl.split("|")]
        if len(parts) != 3 or parts[2] != "idle":
            raise ValueError("bad line")
        nl = len(case["layers"])
        self.events = parts[0].split()
        self.labels = []
        self.emits = [[] for _ in range(nl)]
        self.pulled = []
        self.lost = [[] for _ in range(nl)]
        for e in self.events:
            m = re.match(r"^([A-Z])(\d*):(.+)$", e)
            if not m:
                raise ValueError("bad event " + e)
            k, lay, v = m.group(1), m.group(2), m.group(3)
            if k == "Y":
                self.labels.append("Yield (%s)" % _cout(v))
                self.emits[nl - 1].append(v)
                continue
            lay = int(lay)
            d = nl - 1 - lay
            if k == "P":
                self.labels.append("L %d (Pull (%s))" % (d, _cout(v)))
                if lay == 0:
                    self.pulled.append(int(v[2:]))
                else:
                    self.emits[lay - 1].append(v)
            elif k == "R":
                self.labels.append("L %d (Recv %d%%N)" % (d, int(v)))
            elif k == "E":
                self.labels.append("L %d (ProcEnd %d%%N)" % (d, int(v)))
            elif k == "X":
                comp = case["layers"][lay]["kind"] == "C"
                self.labels.append("L %d (%s (%s))" % (d, "Hand" if comp else "Next", _cres(v)))
            elif k == "N":
                self.labels.append("L %d (Next (%s))" % (d, _cres(v)))
            elif k == "F":
                self.labels.append("L %d (HandEnd %d%%N)" % (d, int(v)))
            elif k == "D":
                self.lost[lay].append(int(v))
            else:
                raise ValueError("bad event " + e)
        self.lost_flat = [x for l in self.lost for x in l]

    def proj_line(self):
        """Same format as Oracle.C13.model_line, computed from the observed per-layer outputs."""
        ls = []
        for E in self.emits:
            q = ",".join(t[1:] for t in E if t[0] == "q")
            f = ",".join(t[1:] for t in E if t[0] == "f")
            a = ",".join(t[1:] for t in E if t[0] == "a")
            b = ",".join(t[1:] for t in E if t[0] == "b")
            ls.append("Q=%s F=%s A=%s B=%s" % (q, f, a, b))
        fin = ",".join(t[2:] for t in self.emits[-1] if t.startswith("q+"))
        return " / ".join(ls) + " => " + fin


def coq_model(case):
    return "model_line %s %s" % (_ccfg(case), _nl(case["inputs"]))


_PENDING = {}
_CONF = {}


def _key(case, impl):
    return json.dumps(case, sort_keys=True) + "#" + impl


def coq_oracle(case, impl):
    o = Obs(case, impl)
    _PENDING[_key(case, impl)] = "conform_line %s %s [%s] %s" % (
        _ccfg(case), _nl(case["inputs"]), "; ".join(o.labels), _nl(o.lost_flat))
    emits = "[" + "; ".join("[" + "; ".join(_cout(t) for t in E) + "]" for E in o.emits) + "]"
    return "check %s %s %s %s" % (_ccfg(case), _nl(case["inputs"]), _nl(o.pulled), emits)


def conformance(case, impl):
    """Replay of the observed trace on the model ("OK", "REJECT@k", ...); evaluated in batches."""
    k = _key(case, impl)
    if k not in _CONF:
        from vlib import core
        todo = [(kk, e) for kk, e in _PENDING.items() if kk not in _CONF]
        if k not in _PENDING:
            try:
                coq_oracle(case, impl)
                todo.append((k, _PENDING[k]))
            except Exception:
                _CONF[k] = "UNPARSABLE"
                return _CONF[k]
        res, errs = core.coq_eval(COQ_IMPORTS, [e for _, e in todo], "c13conf", shard=COQ_SHARD)
        for (kk, _e), r in zip(todo, res):
            _CONF[kk] = r if r is not None else "EVAL-FAILED"
    return _CONF[k]


def agree(case, impl, model):
    """Correspondence: (1) the observed event trace is a trace of the model, ends quiescent and drops
    the same items; (2) if nothing was dropped, the per-layer per-origin output sequences are the
    schedule-independent prediction of the model."""
    try:
        o = Obs(case, impl)
    except Exception:
        return False
    if conformance(case, impl) != "OK":
        return False
    if o.lost_flat:
        return True
    return o.proj_line() == model


def _unsafe_layers(case):
    return [k for k, l in enumerate(case["layers"]) if l["kind"] == "C" and any(d > 0 for d in l["p"][1]["pdel"])]


def known(case, impl):
    try:
        o = Obs(case, impl)
    except Exception:
        return None
    uns = _unsafe_layers(case)
    hit = [k for k in range(len(o.lost)) if o.lost[k]]
    if hit and all(k in uns for k in hit):
        return FINDING
    return None


def nontrivial(case, impl):
    try:
        o = Obs(case, impl)
    except Exception:
        return False
    if o.lost_flat or any(t[0] != "q" or t[1] == "-" for E in o.emits for t in E):
        return True
    n = 0
    for e in o.events:
        if e.startswith("P0:"):
            n += 1
        if e.startswith("Y:"):
            break
    return n >= 2


def shrink(case):
    xs = case["inputs"]
    for i in range(len(xs)):
        c = json.loads(json.dumps(case))
        c["inputs"] = xs[:i] + xs[i + 1:]
        yield c
    if len(case["layers"]) > 1:
        for i in range(len(case["layers"])):
            c = json.loads(json.dumps(case))
            del c["layers"][i]
            yield c
    for i, l in enumerate(case["layers"]):
        for j, p in enumerate(l["p"]):
            for f, v in (("perrs", []), ("nerrs", []), ("grp", 1), ("nd", 0)):
                if p[f] != v:
                    c = json.loads(json.dumps(case))
                    c["layers"][i]["p"][j][f] = v
                    yield c
    for f in ("gaps", "cgaps"):
        if case[f] != [0]:
            c = json.loads(json.dumps(case))
            c[f] = [0]
            yield c


def distribution(cases, impl):
    shapes, lossy, unsafe, nin, tl, errs = {}, 0, 0, [], [], 0
    for i, c in enumerate(cases):
        s = "".join(l["kind"] for l in c["layers"])
        shapes[s] = shapes.get(s, 0) + 1
        nin.append(len(c["inputs"]))
        if _unsafe_layers(c):
            unsafe += 1
        if i in impl:
            try:
                o = Obs(c, impl[i])
            except Exception:
                continue
            tl.append(len(o.labels))
            if o.lost_flat:
                lossy += 1
            if any(t[0] != "q" or t[1] == "-" for E in o.emits for t in E):
                errs += 1
    return {"shapes": dict(sorted(shapes.items())), "cases_outside_safe_class": unsafe, "runs_with_dropped_item": lossy,
            "runs_with_failure_outputs": errs, "max_inputs": max(nin), "mean_inputs": round(sum(nin) / len(nin), 1),
            "mean_trace_len": round(sum(tl) / max(1, len(tl)), 1), "max_trace_len": max(tl or [0])}
