"""C13 — Processor streams deliver every output exactly once and in order."""
import json
import re
import time

ID = "C13"
HARNESS_PKG = "h_c13"
COQ_IMPORTS = "From PV Require Import Model.Processors Oracle.C13."
FINDING = "composed_second_process_cancelled"
TECHNIQUE = ("Coq proof over a labelled transition system of Buffer / ComposedProcessors / ProcessorStream (invariant by induction over "
             "the label list = every schedule, every cancellation of next()) + refinement check: the event trace observed on the real "
             "code (real tokio select!/wake-ups/cooperative budget, scripted yield-count delays, processors waiting on Notify, tokio mpsc "
             "or tokio semaphores, bursts of several hundred items) is replayed on the Gallina model, every observed drop of an item "
             "must be a drop the model allows at that point")
LEVEL_TEXT = ("Proved in Coq for every schedule (label list), every number of layers and every processor effect function: "
              "C13_exactly_once_in_order_safe / C13_fifo_preserved_safe (layers with cancel-safe next(): single processors, and composed "
              "ones whose second.process never suspends — each layer delivers exactly the sequential run of its processors on what it "
              "received, per origin in order; end to end the Ok items are the chain specification), C13_outside_known (any shape, any "
              "schedule without an item-dropping Recv), C13_loss_accounting (an intermediate item can disappear only with a next() future "
              "dropped during the hand-over), C13_prefix_any_time (at every reachable state of a loss-free run a layer's emitted next()-outputs are a prefix of the sequential result: never a duplicate, never out of order), C13_progress (non-quiescent states have an enabled step), C13_composed_refuted (witness "
              "schedule: ComposedProcessors with a suspending second.process loses an item). Tie to the code: harness-defined processors "
              "(FIFO, group-reversing = bursts of up to 300 outputs ready at once, failing in process/next, per-item yield-count delays, "
              "output queues behind Notify / tokio mpsc / tokio Semaphore so that next() consumes tokio's cooperative budget, process() "
              "optionally behind a tokio Mutex) on the real Buffer, ComposedProcessors, "
              "PipelineBuilder and layered ProcessorStreams; the observed event trace must be a trace of the model ending quiescent with the "
              "same dropped items (items carry a destructor guard: a drop is observed where it happens and must be allowed by the model "
              "there), and the oracle (= the theorem's predicate) is evaluated on the observed per-layer outputs.")
LEVEL_NOTE = ("PARTIAL: tokio's select! (any ready branch may win, losers dropped), unbounded mpsc, Notify and wake-ups are modelled as stated, "
              "not verified; delays are abstracted to 'label not yet taken'; termination of every schedule is not proved (progress only); "
              "compositions deeper than two processors per Buffer are not modelled. Known finding (open): ComposedProcessors::next drops "
              "the intermediate item when Buffer's select! cancels it during second.process(..).await.")
ASSUMPTIONS = ["tokio select!: a ready branch wins, the other future is dropped before the handler runs (modelled)",
               "tokio unbounded mpsc is FIFO and loss-free; Notify/yield_now wake-ups are not lost (modelled; exercised by the idle check of every run)",
               "processors behave as an effect function applied when process() completes, and their own next() dequeues and returns within one poll (true of the harness processors, Ingest, LogPrune)",
               "tokio's cooperative budget: an operation on a tokio resource (mpsc recv, semaphore/mutex acquire, consume_budget) may return Pending although the resource is ready; nothing else is assumed about when (modelled as: such a process() 'may suspend'; a next() suspended there holds no item)",
               "at most two processors are composed behind one Buffer"]
TRUSTED = ["modelled not verified: tokio select!/mpsc/Notify semantics, the glue between layers (Ok items forwarded, errors leave the chain)",
           "trace instrumentation lives in the harness-defined processors / source / glue closures (the anchored code is unmodified, no hook needed)"]
RULE = ("random streams of 1..3 layers (single or two composed processors per Buffer; FIFO / reverse-groups-of-k; process and next failures; "
        "per-item process delays, next delays, arrival gaps, consumer pauses all counted in yield_now; output queues on Notify / tokio mpsc / "
        "tokio Semaphore, process behind a tokio Mutex) over 1..8 (quick) / 1..16 (thorough) distinct inputs; quick 170 random + 33 directed, "
        "thorough 800 + 66; plus budget-burst cases (quick 12, thorough 48): 200..300 (thorough ..600) inputs arriving back to back while outputs "
        "are pulled, group sizes 70..300 so that far more than tokio's 128-unit cooperative budget of work is ready in one poll, budgeted "
        "next() in the bursting stage, shapes C / S / SC / CS / CC / SS; non-trivial = at least two inputs entered before the first "
        "output left, or an item was dropped, or a failure output occurred")
COQ_SHARD = 40
REGISTERED = True
NONTRIVIAL_FLOOR = 20


# ------------------------------------------------------------------------------------------------
# generators
# ------------------------------------------------------------------------------------------------

def _pcfg(rng, values, tag, slow_ok=True):
    p = _pcfg0(rng, values, tag, slow_ok)
    # how next() waits (0 Notify, 1 tokio mpsc, 2 tokio Semaphore) / process behind a tokio Mutex
    p["qm"] = rng.choice([0, 0, 1, 2])
    p["pm"] = 1 if rng.random() < 0.15 else 0
    return p


def _pcfg0(rng, values, tag, slow_ok=True):
    grp = 1 if rng.random() < 0.65 else rng.choice([2, 3])
    nd = rng.choice([0, 0, 1, 2])
    perrs = sorted(v for v in values if rng.random() < 0.08)
    nerrs = sorted(v for v in values if v not in perrs and rng.random() < 0.08)
    if not slow_ok or rng.random() < 0.4:
        pdel = [0]
    else:
        pdel = [rng.choice([0, 1, 1, 2, 3]) for _ in range(rng.randint(1, 3))]
    return {"tag": tag, "grp": grp, "nd": nd, "perrs": perrs, "nerrs": nerrs, "pdel": pdel}


def _case(rng, maxn, force=None):
    n = rng.randint(1, maxn)
    inputs = rng.sample(range(1, 3 * maxn + 1), n)
    if rng.random() < 0.5:
        inputs.sort()
    nl = rng.randint(1, 3)
    layers = []
    base = 0
    for k in range(nl):
        kind = force or ("C" if rng.random() < 0.45 else "S")
        vals = [x + base for x in inputs]
        t1 = 100 * rng.randint(1, 9) * (10 ** min(k, 1))
        p1 = _pcfg(rng, vals, t1)
        base += t1
        if kind == "S":
            layers.append({"kind": "S", "p": [p1]})
        else:
            vals = [x + base for x in inputs]
            t2 = 1000 * rng.randint(1, 9)
            p2 = _pcfg(rng, vals, t2, slow_ok=rng.random() < 0.6)
            base += t2
            layers.append({"kind": "C", "p": [p1, p2]})
    gaps = [rng.choice([0, 0, 1, 2, 3]) for _ in range(rng.randint(1, 3))]
    cgaps = [rng.choice([0, 0, 1, 2, 4]) for _ in range(rng.randint(1, 3))]
    return {"layers": layers, "inputs": inputs, "gaps": gaps, "cgaps": cgaps}


def _p(tag, pdel, grp=1, nd=0, perrs=(), nerrs=(), qm=0, pm=0):
    return {"tag": tag, "grp": grp, "nd": nd, "perrs": list(perrs), "nerrs": list(nerrs), "pdel": list(pdel), "qm": qm, "pm": pm}


# Budget bursts.  tokio gives every task 128 units of cooperative budget per poll; every operation on
# a tokio resource (mpsc recv, semaphore/mutex acquire, consume_budget) takes one and returns Pending
# once they are used up.  A group-reversing processor with a large group releases that many outputs
# at once, so the Buffer task has far more than 128 units of work ready in one poll while the
# source keeps delivering inputs and the consumer keeps pulling: every await point on a tokio
# resource becomes a real suspension point somewhere in the burst.
_BURST_SHAPES = ["C", "C", "C", "SC", "CS", "CC", "S", "SS"]
_BURST_GROUPS = [70, 96, 127, 128, 150, 200, 260, 300]


def _burst_layer(rng, kind, tag, n, unsafe):
    g = rng.choice([x for x in _BURST_GROUPS if x <= max(70, n // 2)])
    # the bursting stage: next() mostly without a scripted yield (a yield per next() call would cut the
    # burst into one item per poll), always on a budgeted tokio resource
    first = _p(tag, [0] if rng.random() < 0.7 else [0, 0, 1], grp=g, nd=0 if rng.random() < 0.85 else 1,
               qm=rng.choice([1, 2]), pm=1 if rng.random() < 0.25 else 0)
    if kind == "S":
        return {"kind": "S", "p": [first]}, tag
    t2 = 10 * tag
    second = _p(t2, [0], grp=rng.choice([1, 1, 1, 2, 3]), nd=rng.choice([0, 1, 1, 2]), qm=rng.choice([0, 1, 2]))
    if unsafe:
        if rng.random() < 0.5:
            second["pm"] = 1
        else:
            second["pdel"] = [0, 1]
    return {"kind": "C", "p": [first, second]}, tag + t2


def _burst_case(rng, tier, shape=None, unsafe=False):
    n = rng.randint(200, 300 if tier == "quick" else 600)
    shape = shape or rng.choice(_BURST_SHAPES)
    layers, base = [], 0
    for k, kind in enumerate(shape):
        tag = 1000 * (100 ** k)
        l, add = _burst_layer(rng, kind, tag, n, unsafe and kind == "C")
        if k > 0 and kind == "S" and rng.random() < 0.5:
            # downstream single layer without a burst of its own: plain FIFO stage fed one item per poll
            l["p"][0]["grp"] = 1
        layers.append(l)
        base += add
    inputs = list(range(1, n + 1))
    if rng.random() < 0.3:
        rng.shuffle(inputs)
    # a few failures in the first layer (values of the inputs themselves)
    p0 = layers[0]["p"][0]
    if rng.random() < 0.4:
        p0["perrs"] = sorted(rng.sample(inputs, 2))
    if rng.random() < 0.4:
        p0["nerrs"] = sorted(rng.sample([x for x in inputs if x not in p0["perrs"]], 2))
    gaps = rng.choice([[0], [0], [0], [0, 0, 1], [1]])
    cgaps = rng.choice([[0], [0], [0, 1], [0, 0, 2]])
    return {"layers": layers, "inputs": inputs, "gaps": gaps, "cgaps": cgaps}


def _bursts(tier, rng):
    out = []
    n = 200 if tier == "quick" else 300
    xs = list(range(1, n + 1))
    # directed: composed, first stage bursts through a tokio channel / semaphore, second stage slow to hand out
    for qm, nd2, g in ((1, 1, 128), (2, 0, 90), (1, 2, 70), (2, 1, 127)) if tier == "quick" else ((1, 1, 128), (2, 0, 90), (1, 2, 70), (2, 1, 127), (1, 0, 150)):
        out.append({"layers": [{"kind": "C", "p": [_p(1000, [0], grp=g, qm=qm), _p(10000, [0], nd=nd2)]}], "inputs": xs, "gaps": [0], "cgaps": [0]})
    shapes = ["C", "SC", "CS", "CC", "S", "C", "C"] if tier == "quick" else _BURST_SHAPES * 5
    for sh in shapes:
        out.append(_burst_case(rng, tier, shape=sh))
    # outside the safe class as well (second.process behind a tokio Mutex or yielding): known finding territory
    for _ in range(1 if tier == "quick" else 3):
        out.append(_burst_case(rng, tier, shape="C", unsafe=True))
    return out


def _directed(tier):
    out = []
    ns = [2, 5, 12] if tier == "quick" else [2, 3, 6, 12, 20, 30]
    for n in ns:
        xs = list(range(1, n + 1))
        for d2 in (0, 1, 2):
            for gap in (0, 1, 2):
                # the design-phase probe: two FIFO processors composed, the second one slow
                out.append({"layers": [{"kind": "C", "p": [_p(100, [0]), _p(1000, [d2])]}], "inputs": xs, "gaps": [gap], "cgaps": [0]})
        # layered streams as the node pipeline builds them (each layer its own Buffer)
        out.append({"layers": [{"kind": "S", "p": [_p(100, [2])]}, {"kind": "S", "p": [_p(1000, [1], nd=1)]}], "inputs": xs, "gaps": [1], "cgaps": [0]})
        out.append({"layers": [{"kind": "S", "p": [_p(100, [1, 0], grp=2, perrs=[2], nerrs=[3])]}, {"kind": "S", "p": [_p(1000, [0])]},
                               {"kind": "S", "p": [_p(10000, [3])]}], "inputs": xs, "gaps": [0, 2], "cgaps": [1]})
    return out


def gen(tier, rng):
    for c in _directed(tier):
        yield c
    for c in _bursts(tier, rng):
        yield c
    nrand, maxn = (170, 8) if tier == "quick" else (800, 16)
    for i in range(nrand):
        yield _case(rng, maxn, force="C" if i % 5 == 0 else None)


# ------------------------------------------------------------------------------------------------
# rendering
# ------------------------------------------------------------------------------------------------

def _lst(xs):
    return ".".join(map(str, xs)) if xs else "-"


def _hp(p):
    return "%d:%d:%d:%s:%s:%s:%d:%d" % (p["tag"], p["grp"], p["nd"], _lst(p["perrs"]), _lst(p["nerrs"]), _lst(p["pdel"]),
                                      p.get("qm", 0), p.get("pm", 0))


def harness_line(case):
    ls = " ".join("%s %s" % (l["kind"], " ".join(_hp(p) for p in l["p"])) for l in case["layers"])
    return "%s | %s | %s | %s" % (ls, ",".join(map(str, case["inputs"])), ",".join(map(str, case["gaps"])), ",".join(map(str, case["cgaps"])))


def _nl(xs):
    return "[" + ";".join("%d%%N" % x for x in xs) + "]"


def _cp(p):
    return "(mkP %d%%N %s %s %d [%s] %s)" % (p["tag"], _nl(p["perrs"]), _nl(p["nerrs"]), p["grp"], ";".join(map(str, p["pdel"])),
                                          "true" if p.get("pm", 0) else "false")


def _ccfg(case):
    ls = []
    for l in case["layers"]:
        if l["kind"] == "S":
            ls.append("Single %s" % _cp(l["p"][0]))
        else:
            ls.append("Comp %s %s" % (_cp(l["p"][0]), _cp(l["p"][1])))
    return "[" + "; ".join(ls) + "]"


def _cres(t):
    return ("Ok %d%%N" if t[0] == "+" else "Er %d%%N") % int(t[1:])


def _cout(t):
    if t.startswith("q"):
        return "OQ (%s)" % _cres(t[1:])
    return "%s %d%%N" % ({"f": "OQ1", "a": "OP1", "b": "OP2"}[t[0]], int(t[1:]))


class Obs:
    """Parsed implementation line."""

    def __init__(self, case, impl):
        parts = [p.strip() for p in impl.split("|")]
        if len(parts) != 3 or parts[2] != "idle":
            raise ValueError("bad line")
        nl = len(case["layers"])
        self.events = parts[0].split()
        self.labels = []
        self.emits = [[] for _ in range(nl)]
        self.pulled = []
        self.lost = [[] for _ in range(nl)]
        self.vanished = []          # tokens destroyed anywhere else (inputs, outputs): never allowed
        for e in self.events:
            m = re.match(r"^([A-Z])(\d*):(.+)$", e)
            if not m:
                raise ValueError("bad event " + e)
            k, lay, v = m.group(1), m.group(2), m.group(3)
            if k == "Y":
                self.labels.append("EL (Yield (%s))" % _cout(v))
                self.emits[nl - 1].append(v)
                continue
            lay = int(lay)
            d = nl - 1 - lay
            if k == "P":
                self.labels.append("EL (L %d (Pull (%s)))" % (d, _cout(v)))
                if lay == 0:
                    self.pulled.append(int(v[2:]))
                else:
                    self.emits[lay - 1].append(v)
            elif k == "R":
                self.labels.append("EL (L %d (Recv %d%%N))" % (d, int(v)))
            elif k == "E":
                self.labels.append("EL (L %d (ProcEnd %d%%N))" % (d, int(v)))
            elif k == "X":
                comp = case["layers"][lay]["kind"] == "C"
                self.labels.append("EL (L %d (%s (%s)))" % (d, "Hand" if comp else "Next", _cres(v)))
            elif k == "N":
                self.labels.append("EL (L %d (Next (%s)))" % (d, _cres(v)))
            elif k == "F":
                self.labels.append("EL (L %d (HandEnd %d%%N))" % (d, int(v)))
            elif k == "D":
                # an intermediate item was destroyed: the model must allow a drop exactly here
                self.labels.append("ED %d %d%%N" % (d, int(v)))
                self.lost[lay].append(int(v))
            elif k == "Z":
                self.vanished.append((lay, int(v)))
            else:
                raise ValueError("bad event " + e)
        self.lost_flat = [x for l in self.lost for x in l]

    def proj_line(self):
        """Same format as Oracle.C13.model_line, computed from the observed per-layer outputs."""
        ls = []
        for E in self.emits:
            q = ",".join(t[1:] for t in E if t[0] == "q")
            f = ",".join(t[1:] for t in E if t[0] == "f")
            a = ",".join(t[1:] for t in E if t[0] == "a")
            b = ",".join(t[1:] for t in E if t[0] == "b")
            ls.append("Q=%s F=%s A=%s B=%s" % (q, f, a, b))
        fin = ",".join(t[2:] for t in self.emits[-1] if t.startswith("q+"))
        return " / ".join(ls) + " => " + fin


def coq_model(case):
    return "model_line %s %s" % (_ccfg(case), _nl(case["inputs"]))


_PENDING = {}
_CONF = {}
HEAVY_CHARS = 12000


def _key(case, impl):
    return json.dumps(case, sort_keys=True) + "#" + impl


def coq_oracle(case, impl):
    o = Obs(case, impl)
    _PENDING[_key(case, impl)] = "conform_line %s %s [%s] %s" % (
        _ccfg(case), _nl(case["inputs"]), "; ".join(o.labels), _nl(o.lost_flat))
    emits = "[" + "; ".join("[" + "; ".join(_cout(t) for t in E) + "]" for E in o.emits) + "]"
    return "check %s %s %s %s" % (_ccfg(case), _nl(case["inputs"]), _nl(o.pulled), emits)


def conformance(case, impl):
    """Replay of the observed trace on the model ("OK", "REJECT@k", ...); evaluated in batches."""
    k = _key(case, impl)
    if k not in _CONF:
        from vlib import core
        todo = [(kk, e) for kk, e in _PENDING.items() if kk not in _CONF]
        if k not in _PENDING:
            try:
                coq_oracle(case, impl)
                todo.append((k, _PENDING[k]))
            except Exception:
                _CONF[k] = "UNPARSABLE"
                return _CONF[k]
        # long traces (bursts) cost seconds each: one coqtop per trace, the short ones in batches
        heavy = [t for t in todo if len(t[1]) > HEAVY_CHARS]
        light = [t for t in todo if len(t[1]) <= HEAVY_CHARS]

        def run(part, shard, tag):
            if not part:
                return
            t0 = time.time()
            res, errs = core.coq_eval(COQ_IMPORTS, [e for _, e in part], tag, shard=shard, timeout=1800)
            for (kk, _e), r in zip(part, res):
                _CONF[kk] = r if r is not None else "EVAL-FAILED"
            core.log("C13 trace replay on the model: %d %s traces in %.1fs; not accepted: %s" % (
                len(part), "long" if shard == 1 else "short", time.time() - t0,
                sorted({_CONF[kk] for kk, _e in part if _CONF[kk] != "OK"})[:6] or "none"))

        from concurrent.futures import ThreadPoolExecutor
        with ThreadPoolExecutor(max_workers=2) as ex:
            fs = [ex.submit(run, heavy, 1, "c13confh"),
                  ex.submit(run, light, max(8, min(COQ_SHARD, len(light) // 15 + 1)), "c13conf")]
            for f in fs:
                f.result()
    return _CONF[k]


def agree(case, impl, model):
    """Correspondence: (1) the observed event trace is a trace of the model, ends quiescent and drops
    the same items; (2) if nothing was dropped, the per-layer per-origin output sequences are the
    schedule-independent prediction of the model."""
    try:
        o = Obs(case, impl)
    except Exception:
        return False
    if o.vanished:
        return False
    if conformance(case, impl) != "OK":
        return False
    if o.lost_flat:
        return True
    return o.proj_line() == model


def _unsafe_layers(case):
    """Composed layers whose second.process may suspend (= not safe_cfg of the model): it yields, or it
    passes a tokio resource that is subject to the cooperative budget."""
    return [k for k, l in enumerate(case["layers"])
            if l["kind"] == "C" and (any(d > 0 for d in l["p"][1]["pdel"]) or l["p"][1].get("pm", 0))]


def known(case, impl):
    try:
        o = Obs(case, impl)
    except Exception:
        return None
    uns = _unsafe_layers(case)
    hit = [k for k in range(len(o.lost)) if o.lost[k]]
    if hit and all(k in uns for k in hit) and not o.vanished:
        return FINDING
    return None


def nontrivial(case, impl):
    try:
        o = Obs(case, impl)
    except Exception:
        return False
    if o.lost_flat or any(t[0] != "q" or t[1] == "-" for E in o.emits for t in E):
        return True
    n = 0
    for e in o.events:
        if e.startswith("P0:"):
            n += 1
        if e.startswith("Y:"):
            break
    return n >= 2


def shrink(case):
    xs = case["inputs"]
    if len(xs) > 40:
        # long bursts fail by chance (tokio's select order): try a few big cuts, not every element
        for a, b in ((0, len(xs) // 2), (len(xs) // 2, len(xs)), (0, len(xs) // 4), (3 * len(xs) // 4, len(xs))):
            c = json.loads(json.dumps(case))
            c["inputs"] = xs[:a] + xs[b:]
            yield c
    else:
        for i in range(len(xs)):
            c = json.loads(json.dumps(case))
            c["inputs"] = xs[:i] + xs[i + 1:]
            yield c
    if len(case["layers"]) > 1:
        for i in range(len(case["layers"])):
            c = json.loads(json.dumps(case))
            del c["layers"][i]
            yield c
    for i, l in enumerate(case["layers"]):
        for j, p in enumerate(l["p"]):
            for f, v in (("perrs", []), ("nerrs", []), ("grp", 1), ("nd", 0), ("qm", 0), ("pm", 0)):
                if p.get(f, v) != v:
                    c = json.loads(json.dumps(case))
                    c["layers"][i]["p"][j][f] = v
                    yield c
    for f in ("gaps", "cgaps"):
        if case[f] != [0]:
            c = json.loads(json.dumps(case))
            c[f] = [0]
            yield c


def distribution(cases, impl):
    shapes, lossy, unsafe, nin, tl, errs = {}, 0, 0, [], [], 0
    bursts = sum(1 for c in cases if len(c["inputs"]) >= 150)
    budgeted = sum(1 for c in cases if any(p.get("qm", 0) or p.get("pm", 0) for l in c["layers"] for p in l["p"]))
    for i, c in enumerate(cases):
        s = "".join(l["kind"] for l in c["layers"])
        shapes[s] = shapes.get(s, 0) + 1
        nin.append(len(c["inputs"]))
        if _unsafe_layers(c):
            unsafe += 1
        if i in impl:
            try:
                o = Obs(c, impl[i])
            except Exception:
                continue
            tl.append(len(o.labels))
            if o.lost_flat:
                lossy += 1
            if any(t[0] != "q" or t[1] == "-" for E in o.emits for t in E):
                errs += 1
    return {"shapes": dict(sorted(shapes.items())), "cases_outside_safe_class": unsafe, "runs_with_dropped_item": lossy,
            "runs_with_failure_outputs": errs, "max_inputs": max(nin), "mean_inputs": round(sum(nin) / len(nin), 1),
            "mean_trace_len": round(sum(tl) / max(1, len(tl)), 1), "max_trace_len": max(tl or [0]),
            "budget_burst_cases": bursts, "cases_with_budgeted_tokio_resources": budgeted}
