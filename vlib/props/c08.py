"""C08 — SQLite log store queries agree with a reference model and never panic."""

ID = "C08"
HARNESS_PKG = "h_store"
HARNESS_ARGS = ["c08"]
COQ_IMPORTS = "From PV Require Import Model.LogStore Oracle.C08.\nOpen Scope N_scope."
COQ_SHARD = 20
HARNESS_PROCS = 16
TECHNIQUE = ("Coq-proved characterisation of a row-level reference model of operations_v1 and the five LogStore queries "
             "+ differential correspondence of that model with the real SqliteStore on random command/query sequences")
LEVEL_TEXT = ("The reference model (Model/LogStore.v: the table as a list of rows in rowid order; insert-or-ignore, delete, payload deletion, "
              "prune; latest / heights / ranged entries / ranged size exactly as the SQL reads) is characterised by theorems proved for every "
              "state and every argument: latest_is_max, heights_spec (incl. the empty list), entries_sorted_in_range, size_is_sum_of_entries, "
              "prune_deletes_exactly_below, writes_spec, queries_total (no step of the model is a panic, whereas the two pre-repair "
              "definitions are proved to panic on concrete witnesses). The property itself - the real store answers like the model - is "
              "a correspondence: every run drives the real SqliteStore (in-memory SQLite, debug build with overflow checks) and the model with the "
              "same command sequences, each store call under its own catch_unwind, and the Gallina oracle is evaluated on the implementation's answers.")
LEVEL_NOTE = ("Proof is about the hand-written model; agreement of SQLite/sqlx with it is differential testing bounded by the generator "
              "(3 authors x 3 logs, seq and size boundaries, forks, ranges None/0/max/max+1/after>=until, empty and duplicate log lists). "
              "Rows with equal seq_num: SQL leaves the order/choice open, the oracle accepts any admissible row.")
ASSUMPTIONS = ["SQLite evaluates the issued SQL with its documented semantics (integer affinity for string-bound parameters, SUM over no rows decodes as 0)",
               "operations are the ones the harness builds: signed, extensions = (), payload_hash iff payload_size > 0, backlink iff seq_num > 0 (header length formula)",
               "one command at a time (no concurrent transactions; that is C10)"]
TRUSTED = ["modelled not verified: SQLite/sqlx, CBOR header length, tie-break among rows with equal seq_num"]
RULE = ("quick: 120 random cases, each an operation table (8-16 operations over 3 authors, seq 0..4 plus uint-width boundaries, claimed payload sizes "
        "0/small/2^31/2^32-1, forks) and 10-16 commands (insert under one of 3 logs / delete / delete payload / prune), every command followed by "
        "latest, latest_tx, heights (empty list, singletons, all, duplicates, unknown log), entries and size on boundary ranges for the touched and one "
        "other log; thorough: 1000 cases with up to 30 commands. non-trivial = some insert ignored, some row deleted or pruned, some entries answer "
        "with >= 2 rows and some heights answer with >= 2 logs")

U32 = 4294967295
SEQS = [0, 0, 1, 1, 2, 2, 3, 4]
SEQ_EDGE = [23, 24, 255, 256, 65535, 65536, U32 - 1, U32]
PS = [0, 0, 1, 5, 23, 24, 255, 256, 65535, 65536]
PS_BIG = [2147483648, U32, U32 - 200, 2147483647]
LOGS = [0, 1, 2]


def _ops(rng, n, hot):
    """Operation table; two thirds of the operations belong to the case's hot author(s) so that
    logs get several rows (and forks: equal seq_num, different payload)."""
    ops, seen0 = [], set()
    while len(ops) < n:
        a = rng.choice(hot)[0] if rng.random() < 0.8 else rng.randrange(3)
        s = rng.choice(SEQ_EDGE) if rng.random() < 0.12 else rng.choice(SEQS)
        r = rng.random()
        if r < 0.12:
            p, b = rng.choice(PS_BIG), None
        else:
            p = rng.choice(PS)
            b = None if rng.random() < 0.3 else rng.choice([0, 1, p if p <= 300 else 7])
        if p == 0:
            if (a, s) in seen0:
                continue
            seen0.add((a, s))
        ops.append([a, s, p, b])
    return ops


def _bounds(ops, a):
    vals = {None, 0, 1, U32}
    for o in ops:
        if o[0] == a:
            for d in (-1, 0, 1):
                v = o[1] + d
                if 0 <= v <= U32:
                    vals.add(v)
    return sorted(vals, key=lambda v: (-1 if v is None else v))


def _queries(rng, ops, a, l, full):
    qs = [["L", a, l]]
    if rng.random() < 0.4:
        qs.append(["T", a, l])
    qs.append(["H", a, []])
    lists = [[l], [2, 0], [l, l], [7], [l, 7, l], [1, l]]
    for ls in ([[2, 1, 0]] if full else []) + rng.sample(lists, 2 if full else 1):
        qs.append(["H", a, ls])
    bs = _bounds(ops, a)
    ranges = [(None, None)]
    for _ in range(3 if full else 1):
        ranges.append((rng.choice(bs), rng.choice(bs)))
    af = rng.choice(bs)
    ranges.append((af, af))                      # after = until: empty
    if full and af not in (None, 0):
        ranges.append((af, af - 1))              # after > until
    for (x, y) in ranges:
        qs.append(["E", a, l, x, y])
        qs.append(["S", a, l, x, y])
    return qs


def _case(rng, nops, ncmd):
    ha = rng.randrange(3)
    hot = [(ha, l) for l in rng.sample(LOGS, 2)] if rng.random() < 0.7 else [(ha, rng.randrange(3)), (rng.randrange(3), rng.randrange(3))]
    ops = _ops(rng, nops, hot)
    items = [["H", 0, []], ["L", 0, 0], ["S", 1, 1, None, None], ["E", 2, 0, None, 3]]
    where = {}
    used = list(hot)
    for _ in range(ncmd):
        r = rng.random()
        if r < 0.64 or not where:
            k = rng.choice(list(where)) if where and rng.random() < 0.2 else rng.randrange(len(ops))
            a = ops[k][0]
            hl = [l for (x, l) in hot if x == a]
            # mostly the hot log of that author, sometimes another one (also for an operation
            # already stored under a different log: INSERT OR IGNORE keeps the first)
            l = rng.choice(hl) if hl and rng.random() < 0.7 else rng.choice(LOGS)
            items.append(["I", k, l])
            where.setdefault(k, l)
            used.append((a, l))
        elif r < 0.72:
            k = rng.choice(list(where)) if rng.random() < 0.85 else rng.randrange(len(ops))
            items.append(["D", k])
            a, l = ops[k][0], where.get(k, 0)
        elif r < 0.82:
            k = rng.choice(list(where)) if rng.random() < 0.85 else rng.randrange(len(ops))
            items.append(["X", k])
            a, l = ops[k][0], where.get(k, 0)
        else:
            k = rng.choice(list(where))
            a, l = ops[k][0], where[k]
            u = rng.choice([v for v in _bounds(ops, a) if v is not None])
            items.append(["P", a, l, u])
        items += _queries(rng, ops, a, l, True)
        a2, l2 = rng.choice(used) if rng.random() < 0.7 else (rng.randrange(3), rng.randrange(3))
        items += _queries(rng, ops, a2, l2, False)
    return {"ops": ops, "items": items}


def gen(tier, rng):
    if tier == "quick":
        for _ in range(120):
            yield _case(rng, rng.randint(8, 16), rng.randint(10, 16))
    else:
        for _ in range(1000):
            yield _case(rng, rng.randint(6, 24), rng.randint(10, 30))


def _o(v):
    return "-" if v is None else str(v)


def _item_token(it):
    c = it[0]
    if c == "I":
        return "I%d,%d" % (it[1], it[2])
    if c in ("D", "X"):
        return "%s%d" % (c, it[1])
    if c == "P":
        return "P%d,%d,%d" % (it[1], it[2], it[3])
    if c in ("L", "T"):
        return "%s%d,%d" % (c, it[1], it[2])
    if c == "H":
        return "H%d,%s" % (it[1], ".".join(map(str, it[2])))
    if c in ("E", "S"):
        return "%s%d,%d,%s,%s" % (c, it[1], it[2], _o(it[3]), _o(it[4]))
    raise ValueError(c)


def harness_line(case):
    ops = " ".join("O%d,%d,%d,%s" % (o[0], o[1], o[2], _o(o[3])) for o in case["ops"])
    return ops + " | " + " ".join(_item_token(it) for it in case["items"])


def _n(v):
    return "%d" % v


def _on(v):
    return "None" if v is None else "(Some %s)" % _n(v)


def _tab(case):
    return "[" + ";".join("mkop %s %s %s %s" % (_n(o[0]), _n(o[1]), _n(o[2]), "false" if o[3] is None else "true")
                          for o in case["ops"]) + "]"


def _item(it):
    c = it[0]
    if c == "I":
        return "Ins %s %s" % (_n(it[1]), _n(it[2]))
    if c == "D":
        return "Del %s" % _n(it[1])
    if c == "X":
        return "DelPayload %s" % _n(it[1])
    if c == "P":
        return "Prune %s %s %s" % (_n(it[1]), _n(it[2]), _n(it[3]))
    if c == "L":
        return "Latest %s %s" % (_n(it[1]), _n(it[2]))
    if c == "T":
        return "LatestTx %s %s" % (_n(it[1]), _n(it[2]))
    if c == "H":
        return "Heights %s [%s]" % (_n(it[1]), ";".join(_n(x) for x in it[2]))
    if c == "E":
        return "Entries %s %s %s %s" % (_n(it[1]), _n(it[2]), _on(it[3]), _on(it[4]))
    if c == "S":
        return "Size %s %s %s %s" % (_n(it[1]), _n(it[2]), _on(it[3]), _on(it[4]))
    raise ValueError(c)


def _items(case):
    return "[" + ";".join(_item(it) for it in case["items"]) + "]"


def coq_model(case):
    return "model_line %s %s" % (_tab(case), _items(case))


def _b(t):
    if t == "1":
        return "true"
    if t == "0":
        return "false"
    raise ValueError(t)


def _iobs(it, tok):
    c = it[0]
    try:
        if tok == "ERR":
            return "IErr"
        if tok == "PANIC":
            return "IPanic"
        if c in ("I", "D", "X"):
            return "IBool %s" % _b(tok)
        if c == "P":
            return "INum %s" % _n(int(tok))
        if c in ("L", "T"):
            if tok == "-":
                return "ILatest None"
            k, s, b = tok.split(".")
            return "ILatest (Some (%s, %s, %s))" % (_n(int(k)), _n(int(s)), _b(b))
        if c == "H":
            if tok == "-":
                return "IHeights None"
            ps = [p.split(":") for p in tok.split(",")]
            return "IHeights (Some [%s])" % ";".join("(%s,%s)" % (_n(int(a)), _n(int(b))) for a, b in ps)
        if c == "E":
            if tok == "-":
                return "IEntries None"
            ps = [p.split(".") for p in tok.split(",")]
            return "IEntries (Some [%s])" % ";".join("(%s,%s)" % (_n(int(a)), _b(b)) for a, b in ps)
        if c == "S":
            if tok == "-":
                return "ISize None"
            a, b = tok.split(":")
            return "ISize (Some (%s,%s))" % (_n(int(a)), _n(int(b)))
    except (ValueError, TypeError):
        pass
    return "IBad"


def _split(line):
    head, _, rest = line.partition(" | ")
    if not head.startswith("h="):
        raise ValueError("no header sizes")
    hs = [int(t) for t in head[2:].split(",") if t]
    return hs, rest.split()


def coq_oracle(case, impl):
    hs, toks = _split(impl)
    if len(toks) != len(case["items"]):
        return "false"
    io = "[" + ";".join("(%s)" % _iobs(it, t) for it, t in zip(case["items"], toks)) + "]"
    return "check %s %s [%s] %s" % (_tab(case), _items(case), ";".join(_n(h) for h in hs), io)


def agree(case, impl, model):
    """Equal token by token; for latest-entry queries the implementation's answer must be one of
    the admissible rows the model lists (SQL does not say which of several rows with the same
    maximal seq_num comes first)."""
    try:
        hi, ti = _split(impl)
        hm, tm = _split(model)
    except ValueError:
        return False
    if hi != hm or len(ti) != len(tm) or len(ti) != len(case["items"]):
        return False
    for it, a, b in zip(case["items"], ti, tm):
        if it[0] in ("L", "T"):
            if a not in b.split("/"):
                return False
        elif a != b:
            return False
    return True


def _stats(case, impl):
    try:
        _, toks = _split(impl)
    except ValueError:
        return None
    st = {"ignored": 0, "removed": 0, "multi_entries": 0, "multi_heights": 0, "err": 0, "panic": 0, "none": 0, "saturated": 0}
    for it, t in zip(case["items"], toks):
        c = it[0]
        if t == "ERR":
            st["err"] += 1
        elif t == "PANIC":
            st["panic"] += 1
        elif c == "I" and t == "0":
            st["ignored"] += 1
        elif c == "D" and t == "1":
            st["removed"] += 1
        elif c == "P" and t not in ("0",):
            st["removed"] += 1
        elif c == "E" and "," in t:
            st["multi_entries"] += 1
        elif c == "H" and "," in t:
            st["multi_heights"] += 1
        elif c == "S" and t.endswith(":%d" % U32):
            st["saturated"] += 1
        elif t == "-":
            st["none"] += 1
    return st


def nontrivial(case, impl):
    st = _stats(case, impl)
    return bool(st and st["ignored"] and st["removed"] and st["multi_entries"] and st["multi_heights"])


def shrink(case):
    items = case["items"]
    n = len(items)
    size = n // 2
    while size >= 1:
        for i in range(0, n, size):
            cand = items[:i] + items[i + size:]
            if cand:
                yield {"ops": case["ops"], "items": cand}
        size //= 2


def distribution(cases, impl):
    tot = {}
    nitems = 0
    kinds = {}
    for i, c in enumerate(cases):
        nitems += len(c["items"])
        for it in c["items"]:
            kinds[it[0]] = kinds.get(it[0], 0) + 1
        st = _stats(c, impl[i]) if i in impl else None
        for k, v in (st or {}).items():
            tot[k] = tot.get(k, 0) + v
    return {"cases": len(cases), "store_calls": nitems, "calls_by_kind": kinds, "answers": tot,
            "mean_calls_per_case": round(nitems / max(1, len(cases)), 1)}
