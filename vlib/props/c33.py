"""C33 — Only authorized actors change group membership."""
import itertools

ID = "C33"
HARNESS_PKG = "h_c32"
HARNESS_ARGS = ["c33"]
COQ_IMPORTS = "From PV Require Import Model.GroupState Model.GroupProcess Oracle.C33."
COQ_SHARD = 120
TECHNIQUE = ("Coq proof (authority lemmas for every state function; invariant over runs of the process model: every known member was introduced "
             "by an accepted create/add) + differential correspondence of the Gallina process model with the real GroupCrdt::process "
             "(test_utils TestGroup, StrongRemove) on histories of authorised and unauthorised operations")
LEVEL_TEXT = ("Proved in Coq over the model of state.rs + GroupCrdt::process (all histories, no bound): an operation is accepted only if, in the state "
              "at its dependencies, its author is an active manager (or removes itself) and the action is applicable (C33_accept_requires_authority); "
              "a rejected operation returns the replica unchanged and an accepted one only adds its own state (C33_reject_unchanged, C33_accept_extends); "
              "whoever is known in any group of any reachable state was introduced by an accepted create/add of that group "
              "(C33_members_only_via_add_or_create). PARTIAL: the StrongRemove resolver is not modelled; the model is exact for conflict-free histories "
              "(no remove/demote concurrent with an operation by, or a re-add of, the removed member), which the model decides per case. "
              "The model is tied to the code on every run: random concurrent histories on the real GroupCrdt, comparing outcome, resolved dependencies, "
              "raw member states (counters, levels) at the dependencies and of every group after every operation, and the heads.")
LEVEL_NOTE = ("Trusted: Coq kernel + vm_compute; hand-written model; harness/python glue. Correspondence is differential testing. "
              "Fixed finding noop_promote_demote_unchecked (fix commit in p2panda-auth state.rs).")
ASSUMPTIONS = ["members are individuals (no nested groups), conditions are () and never set",
               "histories stay in the conflict-free fragment where the StrongRemove filter is empty (decided by the model per case; steps after leaving it are not judged)",
               "operations arrive after their dependencies (dependencies are heads of earlier replica states)"]
TRUSTED = ["modelled not verified: StrongRemove resolver (outside the conflict-free fragment), nested groups, petgraph, HashMap/HashSet as lists"]
RULE = ("3 re-create cases (open finding); 150 (quick) / all 294 (thorough) systematic cases; 350 (quick) / 1200 (thorough) random histories over 1-2 groups, 4-5 members plus 2 never-added outsiders: create, then 6-14 (quick) / 10-30 (thorough) operations "
        "add/remove/promote/demote/re-submit by managers, lower members, removed members and outsiders; dependencies = current heads or the heads "
        "after an earlier operation (concurrency); plus a systematic family: every kind of unauthorised author x every action on a fixed group. "
        "non-trivial = at least one accepted non-create operation and at least one rejected operation")
SEARCH_LIMIT = 600
NONTRIVIAL_FLOOR = 30

KINDS = {"create": 0, "add": 1, "remove": 2, "promote": 3, "demote": 4, "again": 5}


def op(author, group, depref, kind, target=0, level=0, init=None):
    return [author, group, depref, KINDS[kind], target, level, [list(x) for x in (init or [])]]


def systematic():
    """group 0 = {0: manage, 1: manage, 2: write, 3: read, 4: pull}, 5 removed earlier, 6 outsider"""
    base = [op(0, 0, -1, "create", init=[(0, 3), (1, 3), (2, 2), (3, 1), (4, 0), (5, 2)]),
            op(0, 0, -1, "remove", 5)]
    for author in range(7):
        for kind in ("add", "remove", "promote", "demote"):
            for target in range(7):
                for level in ((3, 0) if kind in ("promote", "demote") else (1,)):
                    yield {"nm": 7, "ng": 1, "ops": base + [op(author, 0, -1, kind, target, level), op(0, 0, -1, "add", 6, 1)]}


def random_history(rng, tier):
    nm = rng.randint(4, 5)
    ng = rng.choice([1, 1, 2])
    total = nm + 2
    n = rng.randint(6, 14) if tier == "quick" else rng.randint(10, 30)
    ops = []

    def init_members():
        ms = [(0, 3)]
        for m in range(1, nm):
            if rng.random() < 0.7:
                ms.append((m, rng.choice([0, 1, 2, 3, 3])))
        return ms

    ops.append(op(0, 0, -1, "create", init=init_members()))
    created = {0}
    while len(ops) < n:
        i = len(ops)
        g = rng.randrange(ng)
        depref = -1 if rng.random() < 0.75 else rng.randrange(max(0, i - 4), i)
        if g not in created and rng.random() < 0.8:
            ops.append(op(rng.randrange(nm), g, depref, "create", init=init_members()))
            created.add(g)
            continue
        r = rng.random()
        author = 0 if r < 0.35 else rng.randrange(total)
        kind = rng.choice(["add", "add", "remove", "remove", "promote", "promote", "demote", "demote", "again"])
        target = rng.randrange(total)
        if kind == "remove" and rng.random() < 0.2:
            target = author
        if kind == "again":
            ops.append(op(0, g, -1, "again", rng.randrange(i)))
        else:
            ops.append(op(author, g, depref, kind, target, rng.choice([0, 1, 2, 3, 3])))
    return {"nm": total, "ng": ng, "ops": ops}


def recreate_family():
    """a create for a group that exists at the dependencies, by its manager, a reader and an outsider
    (open finding recreate_group_unchecked); the random histories never re-create a group"""
    for author in (0, 1, 6):
        yield {"nm": 7, "ng": 1, "recreate": True,
               "ops": [op(0, 0, -1, "create", init=[(0, 3), (1, 1)]),
                       op(author, 0, -1, "create", init=[(author, 3)]),
                       op(0, 0, -1, "add", 2, 1)]}


def known(case, impl):
    if not case.get("recreate"):
        return None
    try:
        steps = parse_impl(impl)
    except Exception:
        return None
    if steps[0][0] == "ok" and steps[1][0] == "ok" and steps[1][2] != "-":
        return "recreate_group_unchecked"
    return None


def gen(tier, rng):
    yield from recreate_family()
    sysm = list(systematic())
    if tier == "quick":
        rng.shuffle(sysm)
        yield from sysm[:150]
        nrand = 350
    else:
        yield from sysm
        nrand = 1200
    for _ in range(nrand):
        yield random_history(rng, tier)


def harness_line(case):
    parts = []
    for o in case["ops"]:
        a, g, d, k, t, l, init = o
        parts.append(" ".join([str(a), str(g), str(d), str(k), str(t), str(l)] + ["%d:%d" % (m, lv) for m, lv in init]))
    return " | ".join(parts)


def _spec(o):
    a, g, d, k, t, l, init = o
    return "[" + ";".join(str(x) for x in [a, g, d + 1, k, t, l] + [m * 4 + lv for m, lv in init]) + "]"


def _specs(case):
    return "([" + ";".join(_spec(o) for o in case["ops"]) + "]%N)"


def _ng(case):
    """number of groups as the harness derives it: highest group id used + 1"""
    return max(o[1] for o in case["ops"]) + 1


def coq_model(case):
    return "model_line %d %d %s" % (case["nm"], _ng(case), _specs(case))


def _nums(s):
    return [int(t) for t in s.split(",") if t]


def _entries(s):
    """'id.mc.lv.ac,...' -> Gallina option (list N) of entry codes; '-' (group absent) / '?' -> None"""
    if s in ("-", "?"):
        return "None"
    codes = []
    for tok in s.split(","):
        if not tok:
            continue
        i, mc, lv, ac = (int(x) for x in tok.split("."))
        codes.append(((i * 16 + mc) * 4 + lv) * 16 + ac)
    return "(Some [" + ";".join(str(c) for c in codes) + "])"


def parse_impl(impl):
    steps = []
    for st in impl.split(" | "):
        f = st.split(";")
        if len(f) != 5:
            raise ValueError("bad step")
        steps.append(f)
    return steps


def _outcome_code(s):
    if s == "ok":
        return 0
    if s == "dup":
        return 1
    if s.startswith("err:"):
        return 2
    if s == "panic":
        return 3
    return 4


def coq_oracle(case, impl):
    steps = parse_impl(impl)
    obs = []
    for out, deps, pre, post, heads in steps:
        obs.append("mkObs %d [%s] %s [%s] [%s]" % (
            _outcome_code(out), ";".join(str(x) for x in _nums(deps)), _entries(pre),
            ";".join(_entries(p) for p in post.split("/")), ";".join(str(x) for x in _nums(heads))))
    return "check %d %s ([%s]%%N)" % (_ng(case), _specs(case), ";".join(obs))


STATS = {"steps": 0, "steps_in_fragment": 0, "cases_leaving_fragment": 0}


def agree(case, impl, model):
    """compare step by step until the model reports that the history left the modelled fragment"""
    si = impl.split(" | ")
    sm = model.split(" | ")
    if len(si) != len(sm):
        return False
    left = False
    for a, b in zip(si, sm):
        STATS["steps"] += 1
        if b == "OUT":
            left = True
            continue
        if left:
            return False
        STATS["steps_in_fragment"] += 1
        if b.startswith("nogroup;"):
            # non-create operation on a group that does not exist at the dependencies: the unrepaired code
            # panics in apply_action (expect), the repaired validate() (C39's fix) rejects it with
            # UnrecognisedActor; either way it is not accepted and everything else must match
            fa, fb = a.split(";"), b.split(";")
            if fa[0] not in ("panic", "err:UnrecognisedActor") or fa[1:] != fb[1:]:
                return False
            continue
        if a != b:
            return False
    if left:
        STATS["cases_leaving_fragment"] += 1
    return True


def nontrivial(case, impl):
    try:
        steps = parse_impl(impl)
    except Exception:
        return False
    ok = sum(1 for s, o in zip(steps, case["ops"]) if s[0] == "ok" and o[3] != 0)
    rej = sum(1 for s in steps if s[0] != "ok")
    return ok >= 1 and rej >= 1


def shrink(case):
    ops = case["ops"]
    # drop one operation (only safe when nothing refers to later indices: fix up references)
    for i in range(len(ops) - 1, 0, -1):
        new = []
        ok = True
        for j, o in enumerate(ops):
            if j == i:
                continue
            o = list(o)
            if o[2] >= 0:
                if o[2] == i:
                    o[2] = i - 1
                elif o[2] > i:
                    o[2] -= 1
            if o[3] == 5:
                if o[4] == i:
                    ok = False
                elif o[4] > i:
                    o[4] -= 1
            new.append(o)
        if ok:
            yield {"nm": case["nm"], "ng": case["ng"], "ops": new}


def distribution(cases, impl):
    outcomes = {}
    kinds = {}
    nops = 0
    for i, c in enumerate(cases):
        nops += len(c["ops"])
        for o in c["ops"]:
            kinds[o[3]] = kinds.get(o[3], 0) + 1
        if i in impl:
            try:
                for s in parse_impl(impl[i]):
                    outcomes[s[0]] = outcomes.get(s[0], 0) + 1
            except Exception:
                outcomes["unparsable"] = outcomes.get("unparsable", 0) + 1
    names = {v: k for k, v in KINDS.items()}
    return {"cases": len(cases), "operations": nops, "mean_ops": round(nops / max(1, len(cases)), 1),
            "kinds": {names[k]: v for k, v in sorted(kinds.items())}, "outcomes": dict(sorted(outcomes.items())),
            "concurrent_deps": sum(1 for c in cases for o in c["ops"] if o[2] >= 0),
            "fragment": dict(STATS)}
