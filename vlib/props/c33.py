"""C33 — Only authorized actors change group membership."""
import itertools

ID = "C33"
HARNESS_PKG = "h_c32"
HARNESS_ARGS = ["c33"]
COQ_IMPORTS = "From PV Require Import Model.GroupState Model.GroupProcess Oracle.C33."
COQ_SHARD = 120
TECHNIQUE = ("Coq proof (authority lemmas for every state function; invariant over runs of the process model: every known member was introduced "
             "by an accepted create/add) + differential correspondence of the Gallina process model with the real GroupCrdt::process "
             "(test_utils TestGroup, StrongRemove) on histories of authorised and unauthorised operations")
LEVEL_TEXT = ("Proved in Coq over the model of state.rs + GroupCrdt::process (all histories, no bound): an operation is accepted only if, in the state "
              "at its dependencies, its author is an active manager (or removes itself) and the action is applicable (C33_accept_requires_authority); "
              "a rejected operation returns the replica unchanged and an accepted one only adds its own state (C33_reject_unchanged, C33_accept_extends); "
              "whoever is known in any group of any reachable state was introduced by an accepted create/add of that group "
              "(C33_members_only_via_add_or_create). PARTIAL: the StrongRemove resolver is not modelled; the model is exact for conflict-free histories "
              "(no remove/demote concurrent with an operation by, or a re-add of, the removed member), which the model decides per case. "
              "Also proved: the decision depends only on the states stored for the declared dependencies; operations processed in between that are not "
              "declared dependencies (concurrent branches) change neither the decision nor the state it is judged in (C33_concurrent_branches_irrelevant). "
              "The model is tied to the code on every run: random concurrent histories on the real GroupCrdt (dependencies = heads, strict subsets of the heads, other antichains), comparing outcome, resolved dependencies, "
              "raw member states (counters, levels) at the dependencies and of every group after every operation, and the heads.")
LEVEL_NOTE = ("Trusted: Coq kernel + vm_compute; hand-written model; harness/python glue. Correspondence is differential testing. "
              "Fixed finding noop_promote_demote_unchecked (fix commit in p2panda-auth state.rs).")
ASSUMPTIONS = ["members are individuals (no nested groups), conditions are () and never set",
               "histories stay in the conflict-free fragment where the StrongRemove filter is empty (decided by the model per case; the operation that leaves it is still judged - decision, dependencies, state at the dependencies - the steps after it are not)",
               "operations arrive after their dependencies (declared dependencies are any set of earlier operations: all heads, subsets of the heads, other antichains; a dependency on a rejected operation is StatesNotFound in code and model)"]
TRUSTED = ["modelled not verified: StrongRemove resolver (outside the conflict-free fragment), nested groups, petgraph, HashMap/HashSet as lists"]
RULE = ("3 re-create cases (open finding); 8 fixed strict-subset cases (author manager in one of two concurrent branches only, dependencies = the other "
        "branch / its own / both / the fork); 120 (quick) / all 294 (thorough) systematic cases: every kind of unauthorised author x every action on a "
        "fixed group; 220 (quick) / 1000 (thorough) branch histories: create, 2-4 concurrent branches of accepted operations that give actors "
        "branch-local authority (added / promoted / demoted / removed in one branch only, conflict-free), then 3-6 / 5-12 operations by those actors, "
        "managers and outsiders whose declared dependencies are a random non-empty (mostly strict) subset of the current heads, an antichain with one "
        "operation per chosen branch (tips or inner operations), the fork, or all heads; 250 (quick) / 1200 (thorough) random histories over 1-2 groups, "
        "4-5 members plus 2 never-added outsiders: create, then 6-14 / 10-30 operations add/remove/promote/demote/re-submit; dependencies = current "
        "heads, the heads after an earlier operation, or a random subset of the current heads. "
        "non-trivial = at least one accepted non-create operation and at least one rejected operation; the evidence also counts operations whose "
        "author is a manager only in the merged current state / only at the declared dependencies")
SEARCH_LIMIT = 600
NONTRIVIAL_FLOOR = 30

KINDS = {"create": 0, "add": 1, "remove": 2, "promote": 3, "demote": 4, "again": 5}


def op(author, group, depref, kind, target=0, level=0, init=None):
    return [author, group, depref, KINDS[kind], target, level, [list(x) for x in (init or [])]]


def systematic():
    """group 0 = {0: manage, 1: manage, 2: write, 3: read, 4: pull}, 5 removed earlier, 6 outsider"""
    base = [op(0, 0, -1, "create", init=[(0, 3), (1, 3), (2, 2), (3, 1), (4, 0), (5, 2)]),
            op(0, 0, -1, "remove", 5)]
    for author in range(7):
        for kind in ("add", "remove", "promote", "demote"):
            for target in range(7):
                for level in ((3, 0) if kind in ("promote", "demote") else (1,)):
                    yield {"nm": 7, "ng": 1, "ops": base + [op(author, 0, -1, kind, target, level), op(0, 0, -1, "add", 6, 1)]}


def random_history(rng, tier):
    nm = rng.randint(4, 5)
    ng = rng.choice([1, 1, 2])
    total = nm + 2
    n = rng.randint(6, 14) if tier == "quick" else rng.randint(10, 30)
    ops = []

    def init_members():
        ms = [(0, 3)]
        for m in range(1, nm):
            if rng.random() < 0.7:
                ms.append((m, rng.choice([0, 1, 2, 3, 3])))
        return ms

    ops.append(op(0, 0, -1, "create", init=init_members()))
    created = {0}
    while len(ops) < n:
        i = len(ops)
        g = rng.randrange(ng)
        r = rng.random()
        depref = -1 if r < 0.70 else (rng.randrange(max(0, i - 4), i) if r < 0.90 else HEADSUB + rng.randint(1, 7))
        if g not in created and rng.random() < 0.8:
            ops.append(op(rng.randrange(nm), g, depref, "create", init=init_members()))
            created.add(g)
            continue
        r = rng.random()
        author = 0 if r < 0.35 else rng.randrange(total)
        kind = rng.choice(["add", "add", "remove", "remove", "promote", "promote", "demote", "demote", "again"])
        target = rng.randrange(total)
        if kind == "remove" and rng.random() < 0.2:
            target = author
        if kind == "again":
            ops.append(op(0, g, -1, "again", rng.randrange(i)))
        else:
            ops.append(op(author, g, depref, kind, target, rng.choice([0, 1, 2, 3, 3])))
    return {"nm": total, "ng": ng, "ops": ops}


HEADSUB = 1000        # depref HEADSUB + m: the sorted current heads selected by the bits of m
EXPLICIT = 1 << 32    # depref EXPLICIT + m: exactly the operations j with bit j of m set


def expl(ids):
    return EXPLICIT + sum(1 << j for j in set(ids))


def branch_history(rng, tier):
    """Concurrent branches with branch-local authority, then operations that declare arbitrary
    non-empty subsets of the heads / antichains over the branches as their dependencies.

    create by manager 0; optional common prefix; k = 2..4 branches forked at the same operation,
    each a chain of 1..3 operations that are accepted by construction (authored by manager 0, by
    manager 1 if it was created as one, or by somebody made manager earlier in the same branch):
    add a fresh actor (often with manage), promote/demote/remove an initial lower member that
    never authors anything in the branches.  So an actor's authority differs per branch
    (added / promoted / demoted / removed in one branch only; the same actor may be added with
    different levels in two branches).  All of this is conflict-free (nobody removed or demoted
    authors or is re-added concurrently).  Then probes by those actors, the managers and
    outsiders with dependencies = a strict or full subset of the current heads, an antichain
    with one operation (not necessarily the tip) from some of the branches, the fork, or all
    heads."""
    total = 9
    quick = tier == "quick"
    lows = [2, 3]                       # initial lower members: never author branch operations
    init = [(0, 3)]
    solid = [0]
    if rng.random() < 0.5:
        init.append((1, 3))
        solid.append(1)
    for m in lows:
        init.append((m, rng.choice([0, 1, 2])))
    fresh = [m for m in range(1, total - 1) if m not in [x for x, _ in init]]   # total-1 stays an outsider
    ops = [op(0, 0, -1, "create", init=init)]
    for _ in range(rng.choice([0, 0, 1])):
        ops.append(op(0, 0, -1, "add", rng.choice(fresh), rng.choice([1, 2, 3])))
    fork = len(ops) - 1
    k = rng.choice([2, 2, 3, 3, 4])
    lens = [rng.randint(1, 2 if quick else 3) for _ in range(k)]
    chains = [[] for _ in range(k)]      # operation numbers per branch
    managers = [list(solid) for _ in range(k)]
    gone = [set() for _ in range(k)]     # removed in this branch
    order = [b for b in range(k) for _ in range(lens[b])]
    rng.shuffle(order)
    special = []                         # actors whose authority is branch-local
    prefix_added = {ops[j][4] for j in range(1, fork + 1)}
    for b in order:
        dep = expl([chains[b][-1] if chains[b] else fork])
        author = rng.choice(managers[b])
        active_here = set(managers[b]) | prefix_added | {ops[j][4] for j in chains[b] if ops[j][3] == 1}
        low = rng.choice([m for m in lows if m not in gone[b]] or [None])
        r = rng.random()
        cand = None
        if r < 0.6:
            t = rng.choice(fresh)
            lv = rng.choice([3, 3, 3, 2, 1, 0])
            if t not in active_here:     # adding an active member would be rejected
                cand = op(author, 0, dep, "add", t, lv)
                if lv == 3:
                    managers[b].append(t)
                special.append(t)
        elif low is not None:
            if r < 0.8:
                cand = op(author, 0, dep, "promote", low, 3)
            elif r < 0.9:
                cand = op(author, 0, dep, "demote", low, 0)
            else:
                cand = op(author, 0, dep, "remove", low)
                gone[b].add(low)
            special.append(low)          # lows never author branch operations themselves
        if cand is None:
            cand = op(author, 0, dep, "promote", 0, 3)   # no-op promote of manager 0: accepted
        chains[b].append(len(ops))
        ops.append(cand)
    nprobe = rng.randint(3, 6) if quick else rng.randint(5, 12)
    special = special or [1]
    for _ in range(nprobe):
        r = rng.random()
        if r < 0.5:
            depref = HEADSUB + rng.randint(1, 15)
        elif r < 0.85:
            bs = [b for b in range(k) if rng.random() < 0.5] or [rng.randrange(k)]
            if len(bs) == k and rng.random() < 0.5:
                bs = bs[1:]
            depref = expl([rng.choice(chains[b]) for b in bs])
        elif r < 0.92:
            depref = expl([fork])
        else:
            depref = -1
        r = rng.random()
        author = rng.choice(special) if r < 0.7 else (rng.choice(solid) if r < 0.85 else rng.randrange(total))
        kind = rng.choice(["add"] * 5 + ["promote"] * 3 + ["remove", "demote"])
        target = rng.choice(fresh + special + [total - 1]) if kind == "add" else rng.randrange(total)
        if kind == "remove" and rng.random() < 0.3:
            target = author
        ops.append(op(author, 0, depref, kind, target, rng.choice([0, 1, 2, 3, 3])))
    return {"nm": total, "ng": 1, "ops": ops}


def subset_family():
    """fixed: create(0) -> {0 adds 1 manage | 0 adds 2 read} concurrently; member 1 (manager in
    one branch only) adds 3 declaring the other branch / its own / both / the fork; the same for
    a promote in one branch only.  The first one is the witness of seeded change C33-1."""
    for deps in ([2], [1], [1, 2], [0]):
        yield {"nm": 5, "ng": 1, "ops": [op(0, 0, -1, "create", init=[(0, 3)]),
                                          op(0, 0, -1, "add", 1, 3), op(0, 0, 0, "add", 2, 1),
                                          op(1, 0, expl(deps), "add", 3, 1), op(0, 0, -1, "add", 4, 1)]}
    for deps in ([2], [1], [1, 2], [0]):
        yield {"nm": 5, "ng": 1, "ops": [op(0, 0, -1, "create", init=[(0, 3), (1, 1)]),
                                          op(0, 0, -1, "promote", 1, 3), op(0, 0, 0, "add", 2, 1),
                                          op(1, 0, expl(deps), "add", 3, 1), op(0, 0, -1, "add", 4, 1)]}


def recreate_family():
    """a create for a group that exists at the dependencies, by its manager, a reader and an outsider
    (open finding recreate_group_unchecked); the random histories never re-create a group"""
    for author in (0, 1, 6):
        yield {"nm": 7, "ng": 1, "recreate": True,
               "ops": [op(0, 0, -1, "create", init=[(0, 3), (1, 1)]),
                       op(author, 0, -1, "create", init=[(author, 3)]),
                       op(0, 0, -1, "add", 2, 1)]}


def known(case, impl):
    if not case.get("recreate"):
        return None
    try:
        steps = parse_impl(impl)
    except Exception:
        return None
    if steps[0][0] == "ok" and steps[1][0] == "ok" and steps[1][2] != "-":
        return "recreate_group_unchecked"
    return None


def gen(tier, rng):
    yield from recreate_family()
    yield from subset_family()
    sysm = list(systematic())
    if tier == "quick":
        rng.shuffle(sysm)
        yield from sysm[:120]
        nrand, nbranch = 250, 220
    else:
        yield from sysm
        nrand, nbranch = 1200, 1000
    for _ in range(nbranch):
        yield branch_history(rng, tier)
    for _ in range(nrand):
        yield random_history(rng, tier)


def harness_line(case):
    parts = []
    for o in case["ops"]:
        a, g, d, k, t, l, init = o
        parts.append(" ".join([str(a), str(g), str(d), str(k), str(t), str(l)] + ["%d:%d" % (m, lv) for m, lv in init]))
    return " | ".join(parts)


def _spec(o):
    a, g, d, k, t, l, init = o
    return "[" + ";".join(str(x) for x in [a, g, d + 1, k, t, l] + [m * 4 + lv for m, lv in init]) + "]"


def _specs(case):
    return "([" + ";".join(_spec(o) for o in case["ops"]) + "]%N)"


def _ng(case):
    """number of groups as the harness derives it: highest group id used + 1"""
    return max(o[1] for o in case["ops"]) + 1


def coq_model(case):
    return "model_line %d %d %s" % (case["nm"], _ng(case), _specs(case))


def _nums(s):
    return [int(t) for t in s.split(",") if t]


def _entries(s):
    """'id.mc.lv.ac,...' -> Gallina option (list N) of entry codes; '-' (group absent) / '?' -> None"""
    if s in ("-", "?"):
        return "None"
    codes = []
    for tok in s.split(","):
        if not tok:
            continue
        i, mc, lv, ac = (int(x) for x in tok.split("."))
        codes.append(((i * 16 + mc) * 4 + lv) * 16 + ac)
    return "(Some [" + ";".join(str(c) for c in codes) + "])"


def parse_impl(impl):
    steps = []
    for st in impl.split(" | "):
        f = st.split(";")
        if len(f) != 5:
            raise ValueError("bad step")
        steps.append(f)
    return steps


def _outcome_code(s):
    if s == "ok":
        return 0
    if s == "dup":
        return 1
    if s.startswith("err:"):
        return 2
    if s == "panic":
        return 3
    return 4


def coq_oracle(case, impl):
    steps = parse_impl(impl)
    obs = []
    for out, deps, pre, post, heads in steps:
        obs.append("mkObs %d [%s] %s [%s] [%s]" % (
            _outcome_code(out), ";".join(str(x) for x in _nums(deps)), _entries(pre),
            ";".join(_entries(p) for p in post.split("/")), ";".join(str(x) for x in _nums(heads))))
    return "check %d %s ([%s]%%N)" % (_ng(case), _specs(case), ";".join(obs))


STATS = {"steps": 0, "steps_in_fragment": 0, "cases_leaving_fragment": 0, "leaving_steps_judged": 0}
SUBSET = {}


def agree(case, impl, model):
    """compare step by step until the model reports that the history left the modelled fragment"""
    si = impl.split(" | ")
    sm = model.split(" | ")
    if len(si) != len(sm):
        return False
    left = False
    for a, b in zip(si, sm):
        STATS["steps"] += 1
        if b == "OUT":
            left = True
            continue
        if left:
            return False
        if b.startswith("OUT;"):
            # the operation that takes the history out of the fragment: validated against a conflict-free
            # history, so outcome, resolved dependencies and the state at the dependencies are exact
            left = True
            STATS["leaving_steps_judged"] += 1
            if a.split(";")[:3] != b.split(";")[1:4]:
                return False
            continue
        STATS["steps_in_fragment"] += 1
        if b.startswith("nogroup;"):
            # non-create operation on a group that does not exist at the dependencies: the unrepaired code
            # panics in apply_action (expect), the repaired validate() (C39's fix) rejects it with
            # UnrecognisedActor; either way it is not accepted and everything else must match
            fa, fb = a.split(";"), b.split(";")
            if fa[0] not in ("panic", "err:UnrecognisedActor") or fa[1:] != fb[1:]:
                return False
            continue
        if a != b:
            return False
    if left:
        STATS["cases_leaving_fragment"] += 1
    return True


def nontrivial(case, impl):
    try:
        steps = parse_impl(impl)
    except Exception:
        return False
    ok = sum(1 for s, o in zip(steps, case["ops"]) if s[0] == "ok" and o[3] != 0)
    rej = sum(1 for s in steps if s[0] != "ok")
    return ok >= 1 and rej >= 1


def shrink(case):
    ops = case["ops"]
    # drop one operation (only safe when nothing refers to later indices: fix up references)
    for i in range(len(ops) - 1, 0, -1):
        new = []
        ok = True
        for j, o in enumerate(ops):
            if j == i:
                continue
            o = list(o)
            if 0 <= o[2] < HEADSUB:
                if o[2] == i:
                    o[2] = i - 1
                elif o[2] > i:
                    o[2] -= 1
            elif o[2] >= EXPLICIT:
                m = o[2] - EXPLICIT
                o[2] = EXPLICIT + ((m & ((1 << i) - 1)) | ((m >> (i + 1)) << i))
            if o[3] == 5:
                if o[4] == i:
                    ok = False
                elif o[4] > i:
                    o[4] -= 1
            new.append(o)
        if ok:
            yield {"nm": case["nm"], "ng": case["ng"], "ops": new}


def _is_manager(entries, member):
    """entries 'id.mc.lv.ac,...' (or '-'): member is an active manager there"""
    for tok in entries.split(","):
        f = tok.split(".")
        if len(f) == 4 and int(f[0]) == member:
            return int(f[1]) % 2 == 1 and int(f[2]) == 3
    return False


def subset_stats(cases, impl):
    """how often the declared dependencies are a strict subset of the heads / another antichain, and how
    often the author's authority at the dependencies differs from its authority in the merged current state"""
    st = {"deps_strict_subset_of_heads": 0, "deps_other_than_heads": 0, "accepted_with_deps_other_than_heads": 0,
          "rejected_with_deps_other_than_heads": 0, "author_manager_only_in_current_state": 0,
          "author_manager_only_at_dependencies": 0}
    for i, c in enumerate(cases):
        if i not in impl:
            continue
        try:
            steps = parse_impl(impl[i])
        except Exception:
            continue
        heads, post = [], []
        for o, (out, deps, pre, posts, hs) in zip(c["ops"], steps):
            d = set(_nums(deps))
            if o[3] not in (0, 5) and d != set(heads):
                st["deps_other_than_heads"] += 1
                if d and d < set(heads):
                    st["deps_strict_subset_of_heads"] += 1
                st["accepted_with_deps_other_than_heads" if out == "ok" else "rejected_with_deps_other_than_heads"] += 1
                cur = post[o[1]] if o[1] < len(post) else "-"
                at_deps, in_cur = _is_manager(pre, o[0]), _is_manager(cur, o[0])
                if in_cur and not at_deps:
                    st["author_manager_only_in_current_state"] += 1
                if at_deps and not in_cur:
                    st["author_manager_only_at_dependencies"] += 1
            heads, post = _nums(hs), posts.split("/")
    return st


def distribution(cases, impl):
    outcomes = {}
    kinds = {}
    nops = 0
    SUBSET.clear()
    SUBSET.update(subset_stats(cases, impl))
    for i, c in enumerate(cases):
        nops += len(c["ops"])
        for o in c["ops"]:
            kinds[o[3]] = kinds.get(o[3], 0) + 1
        if i in impl:
            try:
                for s in parse_impl(impl[i]):
                    outcomes[s[0]] = outcomes.get(s[0], 0) + 1
            except Exception:
                outcomes["unparsable"] = outcomes.get("unparsable", 0) + 1
    names = {v: k for k, v in KINDS.items()}
    return {"cases": len(cases), "operations": nops, "mean_ops": round(nops / max(1, len(cases)), 1),
            "kinds": {names[k]: v for k, v in sorted(kinds.items())}, "outcomes": dict(sorted(outcomes.items())),
            "concurrent_deps": sum(1 for c in cases for o in c["ops"] if o[2] >= 0),
            "head_subset_deps": sum(1 for c in cases for o in c["ops"] if HEADSUB <= o[2] < EXPLICIT),
            "explicit_deps": sum(1 for c in cases for o in c["ops"] if o[2] >= EXPLICIT),
            "strict_subset_of_heads": dict(SUBSET),
            "fragment": dict(STATS)}
