"""C39 — Spaces message processing is idempotent and total."""
import random

ID = "C39"
HARNESS_PKG = "h_c39"
COQ_IMPORTS = "From PV Require Import Model.Spaces Oracle.C39."
COQ_SHARD = 40
HARNESS_TIMEOUT = 1500
TECHNIQUE = ("Coq proof over a model of Manager::process (routing, dispatch preconditions, the four replay guards) for arbitrary "
             "handlers behind the guards + differential correspondence with real Managers (in-memory SQLite) on scripted multi-peer "
             "histories with re-deliveries and on forged/mutated messages of every SpacesArgs variant")
LEVEL_TEXT = ("Proved in Coq (closed under the global context): C39_route_total / C39_deliver_total (no kind, auth action or prior state "
              "reaches a panic in the dispatch), C39_guarded_idempotent(+_later) (a seen-set in front of ANY handler makes processing "
              "idempotent, also after an arbitrary later history), C39_deliver_twice and C39_redelivery_later (the manager's own four "
              "guards, keyed as in the code: auth operation id, (space, message id) incl. dependency nodes, (member, key bundle); "
              "re-delivery at any later position, interleaved with local operations, returns success without events and leaves the "
              "state as it is), C39_errors_persist_nothing, C39_oracle_sound. PARTIAL: the handlers (p2panda-auth CRDT, DCGKA, "
              "encryption, event construction) are parameters of the model, not modelled; that the real handlers record their key on "
              "success, persist nothing on error and never panic is checked by correspondence only: every delivery of every case is "
              "observed (result, events, canonical digest of the persisted auth/space/key-registry state, member lists through the "
              "public API) and compared with the model's prediction (first processing / guard hit / which dispatch error).")
LEVEL_NOTE = ("Trusted: Coq kernel + vm_compute; hand-written model; the python scenario simulator that says which honest deliveries "
              "succeed (a wrong expectation shows up as a disagreement, never as a pass); harness glue. The code as found violated the "
              "property in 7 ways (see findings/C39-*.json), all repaired by fix: commits; the as-is model and its refutations are kept "
              "in Proofs/Spaces.v for the record.")
ASSUMPTIONS = ["handlers behind the guards are arbitrary functions returning error or (state, events); they are assumed not to remove keys from the guard sets and to persist nothing on error (checked on the implementation by the state digest on every delivery)",
               "messages are delivered in causal order for the differential part (documented requirement of Manager::process); adversarial messages are not",
               "validity of a key bundle does not change between two deliveries (no expiry during a case)"]
TRUSTED = ["modelled not verified: p2panda-auth GroupCrdt::process, EncryptionGroup::receive (DCGKA), event construction, SQLite persistence, key-bundle signature/lifetime checks",
           "state digest = blake3 of the CBOR value tree of persisted auth state + every space state + key registry with all maps/arrays sorted (multiset-sensitive, order-insensitive)"]
RULE = ("quick: 60 honest histories (2-4 peers, optional pre-existing group incl. nested in the space, one space, add/remove members directly "
        "and through the group + repair, publishes incl. concurrent with membership changes, duplicate key-bundle messages; every peer "
        "processes all messages in causal order; ~30% of the steps re-deliver a random earlier (peer, message) pair incl. the author's own "
        "messages) + every entry of the adversarial catalogue (each SpacesArgs variant with remote-chosen fields: unknown/foreign space and "
        "group ids, unknown dependencies, promote/demote, references to missing / non-auth / unsupported messages, forged and replayed "
        "ciphertexts, key bundles with wrong identity / signature / lifetime, outsider authors) x victims + 60 structural mutations (flip / "
        "truncate / zero bytes, duplicate / clear / reverse arrays, max integers) of real messages, each forged message delivered twice; "
        "thorough: 500 histories (up to 5 peers, 120 steps), catalogue x 3 bases, 600 mutations. non-trivial = at least two re-deliveries "
        "hit a guard (honest) or a forged message was processed (adversarial)")
NONTRIVIAL_FLOOR = 20
SEARCH_LIMIT = 400

ACC = {"p": "pull", "r": "read", "w": "write", "m": "manage"}


def mid(k, j):
    return k * 64 + j + 1


class Sim:
    """Scenario builder: writes the harness script and, in lock step, the model operations and
    what an honest run is expected to produce."""

    def __init__(self, n):
        self.n = n
        self.script = []      # op K -> text
        self.expect = []      # op K -> expected token ("L:2") or None
        self.dl = []          # op K -> None | [peer, msgid, mode]
        self.mops = []        # ["D"|"L", peer, id, author, kind, hok, mode]
        self.msgs = {}        # (K, J) -> dict
        self.log = []         # labels in creation order
        self.cursor = [0] * n
        self.done = [set() for _ in range(n)]       # labels processed successfully or authored
        self.failed = [set() for _ in range(n)]     # labels whose handler failed
        self.auth_known = [[] for _ in range(n)]    # auth labels known per peer
        self.authored = []
        # the one space (id 0)
        self.creator = None
        self.direct = {}      # peer -> access
        self.group = None     # dict(creator, members{peer: access}, nested)
        self.ever_removed = set()
        self.welcomed = [False] * n
        self.removal_seen = [set() for _ in range(n)]
        # per peer: the space's orderer graph as add_dependency builds it (node -> has successor)
        self.graph = [dict() for _ in range(n)]

    # -- helpers -------------------------------------------------------------------------
    def _op(self, text, expect=None, dl=None):
        self.script.append(text)
        self.expect.append(expect)
        self.dl.append(dl)
        return len(self.script) - 1

    def heads(self, p):
        return sorted(x for x, has_succ in self.graph[p].items() if not has_succ)

    def _add_dependency(self, q, m):
        g = self.graph[q]
        if m["id"] in g:
            return
        g[m["id"]] = False
        for d in m["deps"]:
            g[d] = True

    def _new(self, k, j, author, kind, effect=None, extra=None):
        m = {"id": mid(k, j), "author": author, "kind": kind, "effect": effect, "label": (k, j), "deps": []}
        if extra:
            m.update(extra)
        if kind.startswith("(KSpaceMembership") or kind.startswith("(KApplication"):
            m["deps"] = self.heads(author)
            self._add_dependency(author, m)
        self.msgs[(k, j)] = m
        self.log.append((k, j))
        self.done[author].add((k, j))
        self.authored.append([author, m["id"]])
        self.mops.append(["L", author, m["id"], author, kind, True, "exact", m["deps"]])
        if kind.startswith("(KAuth"):
            self.auth_known[author].append((k, j))
        self._apply_effect(author, m)
        return m

    def _apply_effect(self, q, m):
        eff = m.get("effect")
        if not eff:
            return
        if eff[0] == "welcome" and q in eff[1]:
            self.welcomed[q] = True
        if eff[0] == "remove":
            self.removal_seen[q].add(eff[1])

    def secret_members(self):
        s = {self.creator}
        s |= {p for p, a in self.direct.items() if a != "p"}
        if self.group and self.group["nested"]:
            s |= {p for p, a in self.group["members"].items() if a != "p"}
        return s

    def in_space(self, p):
        return p == self.creator or p in self.direct or (self.group and self.group["nested"] and p in self.group["members"])

    # -- local operations ----------------------------------------------------------------
    def kb(self, p):
        k = self._op("kb %d" % p, "L:1")
        self._new(k, 0, p, "(KKeyBundle %d)" % p)

    def cg(self, p, members):
        k = self._op("cg %d %s" % (p, ",".join("p%d:%s" % (q, a) for q, a in members.items())), "L:1")
        self._new(k, 0, p, "(KAuth ACreate)")
        self.group = {"creator": p, "members": dict(members), "nested": False}

    def gadd(self, q, a):
        g = self.group
        k = self._op("gadd %d 0 p%d:%s" % (g["creator"], q, a), "L:1")
        self._new(k, 0, g["creator"], "(KAuth AAdd)")
        g["members"][q] = a
        if self.creator is not None:
            self.rep(("welcome", {q}) if (g["nested"] and a != "p") else None)

    def grm(self, q):
        g = self.group
        k = self._op("grm %d 0 p%d" % (g["creator"], q), "L:1")
        self._new(k, 0, g["creator"], "(KAuth ARemove)")
        was_secret = g["members"].pop(q) != "p"
        if self.creator is not None:
            if g["nested"]:
                self.ever_removed.add(q)
            self.rep(("remove", q) if (g["nested"] and was_secret) else None)

    def rep(self, effect):
        c = self.creator
        k = self._op("rep %d" % c, "L:1")
        ref = self.auth_known[c][-1]
        self._new(k, 0, c, "(KSpaceMembership 0 %d)" % mid(*ref), effect)

    def cs(self, p, direct, nest_group):
        mem = ["p%d:%s" % (q, a) for q, a in direct.items()]
        if nest_group:
            mem.append("g0:%s" % nest_group)
        hist = list(self.auth_known[p])
        k = self._op("cs %d 0 %s" % (p, ",".join(mem) if mem else "-"), "L:%d" % (len(hist) + 2))
        self.creator = p
        self.direct = dict(direct)
        if nest_group:
            self.group["nested"] = True
        self._new(k, 0, p, "(KAuth ACreate)")
        for j, ref in enumerate(hist):
            self._new(k, j + 1, p, "(KSpaceMembership 0 %d)" % mid(*ref))
        self._new(k, len(hist) + 1, p, "(KSpaceMembership 0 %d)" % mid(k, 0), ("welcome", set(self.secret_members())))

    def sadd(self, q, a):
        c = self.creator
        k = self._op("sadd %d 0 p%d:%s" % (c, q, a), "L:2")
        self._new(k, 0, c, "(KAuth AAdd)")
        self._new(k, 1, c, "(KSpaceMembership 0 %d)" % mid(k, 0), ("welcome", {q}) if a != "p" else None)
        self.direct[q] = a

    def srm(self, q):
        c = self.creator
        k = self._op("srm %d 0 p%d" % (c, q), "L:2")
        was_secret = self.direct.pop(q) != "p"
        self.ever_removed.add(q)
        self._new(k, 0, c, "(KAuth ARemove)")
        self._new(k, 1, c, "(KSpaceMembership 0 %d)" % mid(k, 0), ("remove", q) if was_secret else None)

    def pub(self, p, data):
        k = self._op("pub %d 0 %s" % (p, data), "L:1")
        self._new(k, 0, p, "(KApplication 0)", None, {"rm_known": sorted(self.removal_seen[p])})

    def can_publish(self, p):
        return self.welcomed[p] and p not in self.removal_seen[p]

    # -- deliveries ----------------------------------------------------------------------
    def hok(self, q, m):
        if m["kind"] == "(KApplication 0)" and self.welcomed[q] and q in self.removal_seen[q] and q in m.get("rm_known", []):
            return False
        return True

    def deliver(self, q, label, mode="exact"):
        m = self.msgs[label]
        settled = label in self.done[q]
        ok = True if settled else self.hok(q, m)
        self._op("dl %d %d %d" % (q, label[0], label[1]), None, [q, m["id"], mode])
        self.mops.append(["D", q, m["id"], m["author"], m["kind"], ok, mode, m["deps"]])
        if not settled:
            if ok:
                self.done[q].add(label)
                if m["kind"].startswith("(KSpaceMembership") or m["kind"].startswith("(KApplication"):
                    self._add_dependency(q, m)
                if m["kind"].startswith("(KAuth"):
                    self.auth_known[q].append(label)
                self._apply_effect(q, m)
            else:
                self.failed[q].add(label)

    def pending(self, q):
        while self.cursor[q] < len(self.log) and self.msgs[self.log[self.cursor[q]]]["author"] == q:
            self.cursor[q] += 1
        return self.cursor[q] < len(self.log)

    def deliver_next(self, q):
        if not self.pending(q):
            return False
        label = self.log[self.cursor[q]]
        self.cursor[q] += 1
        self.deliver(q, label)
        return True

    def flush(self, peers=None):
        for q in (peers if peers is not None else range(self.n)):
            while self.deliver_next(q):
                pass

    def redeliver(self, rng):
        q = rng.randrange(self.n)
        pool = sorted(self.done[q] | self.failed[q])
        if not pool:
            return False
        # pick the message kind first so that the four kinds are re-delivered about equally often
        by_kind = {}
        for l in pool:
            by_kind.setdefault(self.msgs[l]["kind"].split()[0], []).append(l)
        label = rng.choice(by_kind[rng.choice(sorted(by_kind))])
        self.deliver(q, label)
        return True

    # -- forged messages -----------------------------------------------------------------
    def forge(self, author, viewer, spec, kind, hok=True):
        """`fg` op; returns the label of the forged message.  kind None = not predictable."""
        a = "x" if author is None else "p%d" % author
        k = self._op("fg %s %d %s" % (a, viewer, spec), "F:1")
        m = {"id": mid(k, 0), "author": 99 if author is None else author, "kind": kind, "effect": None, "label": (k, 0), "hok": hok, "deps": []}
        self.msgs[(k, 0)] = m
        return (k, 0)

    def deliver_forged(self, q, label, mode):
        m = self.msgs[label]
        self._op("dl %d %d %d" % (q, label[0], label[1]), None, [q, m["id"], mode])
        if mode != "free":
            self.mops.append(["D", q, m["id"], m["author"], m["kind"], m["hok"], mode, []])

    def case(self, fam, seed, extra=None):
        c = {"fam": fam, "seed": seed, "n": self.n, "script": self.script, "expect": self.expect, "dl": self.dl,
             "mops": self.mops, "authored": self.authored}
        if extra:
            c.update(extra)
        return c


def bootstrap(n, rng, shuffle=True):
    s = Sim(n)
    for p in range(n):
        s.kb(p)
    s.flush()
    return s


def honest(seed, n, steps, redeliver_p=0.3):
    rng = random.Random(seed)
    s = bootstrap(n, rng)
    c = rng.randrange(n)
    others = [p for p in range(n) if p != c]
    use_group = n >= 3 and rng.random() < 0.6
    nested = None
    in_group = {}
    if use_group:
        k = rng.randint(0, max(0, len(others) - 1))
        for q in rng.sample(others, k):
            in_group[q] = rng.choice("rw")
        members = {c: "m"}
        members.update(in_group)
        s.cg(c, members)
        if rng.random() < 0.5:
            s.flush()
        if rng.random() < 0.7:
            nested = rng.choice("rw")
    free = [p for p in others if not (nested and p in in_group)]
    direct = {}
    for q in rng.sample(free, rng.randint(0, len(free))):
        direct[q] = rng.choice("prww")
    s.cs(c, direct, nested)
    for _ in range(steps):
        r = rng.random()
        if r < redeliver_p:
            s.redeliver(rng)
            continue
        r = rng.random()
        if r < 0.45:
            qs = [q for q in range(s.n) if s.pending(q)]
            if qs:
                s.deliver_next(rng.choice(qs))
                continue
        if r < 0.65:
            ps = [p for p in range(s.n) if s.can_publish(p)]
            if ps:
                s.pub(rng.choice(ps), "%02x" % rng.randrange(256) * rng.randint(0, 5))
                continue
        if r < 0.72:
            s.kb(rng.randrange(s.n))
            continue
        outside = [p for p in range(s.n) if not s.in_space(p) and p not in s.ever_removed]
        if s.group and not s.group["nested"]:
            outside = [p for p in outside if p not in s.group["members"]]
        if r < 0.82 and outside:
            s.sadd(rng.choice(outside), rng.choice("rww"))
            continue
        if r < 0.88 and outside and s.group and s.group["nested"]:
            s.gadd(rng.choice(outside), rng.choice("rw"))
            continue
        if r < 0.94 and s.direct:
            s.srm(rng.choice(sorted(s.direct)))
            continue
        if s.group and s.group["nested"]:
            gm = [p for p in s.group["members"] if p != s.creator]
            if gm:
                s.grm(rng.choice(gm))
                continue
        qs = [q for q in range(s.n) if s.pending(q)]
        if qs:
            s.deliver_next(rng.choice(qs))
    s.flush()
    for _ in range(max(4, steps // 8)):
        s.redeliver(rng)
    return s.case("honest", seed, {"steps": steps})


# adversarial catalogue: (name, author, spec, model kind, hok, mode)
#   base: p0 created space 0 with p1 (write); p2 (if present) is outside. labels: see adversarial()
def catalogue(L):
    C = []
    E = "exact"
    F = "fuzzy"
    for a in (0, 1, None):
        C.append(("su-known", a, "su 0 sg0 h", "(KSpaceUpdate 0)", True, E))
        C.append(("su-unknown", a, "su 7 f1 r", "(KSpaceUpdate 7)", True, E))
        C.append(("promote", a, "au sg0 p p1 m h", "(KAuth APromote)", True, E))
        C.append(("demote", a, "au sg0 d p1 r h", "(KAuth ADemote)", True, E))
        C.append(("promote-unknown-group", a, "au f2 p p1 m -", "(KAuth APromote)", True, E))
        C.append(("add-unknown-group", a, "au f3 a p1 r -", "(KAuth AAdd)", False, E))
        C.append(("remove-unknown-group", a, "au f3 r p1 r h", "(KAuth ARemove)", False, E))
        C.append(("add-unknown-dep", a, "au sg0 a p1 r r", "(KAuth AAdd)", False, E))
        C.append(("create-unknown-dep", a, "au f4 c p1 r r", "(KAuth ACreate)", False, E))
        C.append(("create-again", a, "au sg0 c p1 r h", "(KAuth ACreate)", True, F))
        C.append(("create-empty", a, "au f5 ce p1 r h", "(KAuth ACreate)", True, F))
        C.append(("create-dup-members", a, "au f6 cd p1 r h", "(KAuth ACreate)", True, F))
        C.append(("add-self-group", a, "au sg0 a self r h", "(KAuth AAdd)", True, F))
        C.append(("add-outsider", a, "au sg0 a x w h", "(KAuth AAdd)", True, F))
        C.append(("remove-creator", a, "au sg0 r p0 r h", "(KAuth ARemove)", True, F))
        C.append(("sm-ref-keybundle", a, "sm 0 sg0 %s h" % L["kb"], "(KSpaceMembership 0 %d)" % L["kb_id"], True, E))
        C.append(("sm-ref-missing", a, "sm 0 sg0 u h", "(KSpaceMembership 0 999999)", True, E))
        C.append(("sm-ref-app", a, "sm 0 sg0 %s -" % L["app"], "(KSpaceMembership 0 %d)" % L["app_id"], True, E))
        C.append(("sm-unknown-space-add", a, "sm 5 sg0 %s -" % L["add"], "(KSpaceMembership 5 %d)" % L["add_id"], True, E))
        C.append(("sm-unknown-space-create", a, "sm 5 sg0 %s -" % L["create"], "(KSpaceMembership 5 %d)" % L["create_id"], True, F))
        C.append(("sm-dup-pointer", a, "sm 0 sg0 %s h" % L["create"], "(KSpaceMembership 0 %d)" % L["create_id"], True, F))
        C.append(("sm-dup-pointer-dms", a, "sm 0 sg0 %s h %s" % (L["add"], L["addptr"]), "(KSpaceMembership 0 %d)" % L["add_id"], True, F))
        C.append(("sm-foreign-group", a, "sm 0 f8 %s r" % L["add"], "(KSpaceMembership 0 %d)" % L["add_id"], True, F))
        C.append(("app-unknown-space", a, "app 7 u -", "(KApplication 7)", True, E))
        # a victim that is not welcomed yet queues the message (success), a member fails to decrypt
        C.append(("app-garbage", a, "app 0 u h 40", "(KApplication 0)", False, F))
        C.append(("app-empty", a, "app 0 u r 0", "(KApplication 0)", False, F))
        C.append(("app-replay-new-id", a, "app 0 %s h" % L["app"], "(KApplication 0)", True, F))
        C.append(("kb-fresh", a, "kbx fresh", "(KKeyBundle 1000)", True, F))
        C.append(("kb-other-identity", a, "kbx ident", "(KKeyBundle 1001)", True, F))
        C.append(("kb-expired", a, "kbx expired", "(KKeyBundle 1002)", False, E))
        C.append(("kb-future", a, "kbx future", "(KKeyBundle 1003)", False, E))
        C.append(("kb-inverted", a, "kbx inverted", "(KKeyBundle 1004)", False, E))
        C.append(("kb-max-lifetime", a, "kbx max", "(KKeyBundle 1005)", True, F))
        C.append(("kb-bad-signature", a, "kbx badsig", "(KKeyBundle 1006)", False, E))
        C.append(("copy-keybundle", a, "copy %s" % L["kb"], "(KKeyBundle 0)", True, F))
        C.append(("copy-app", a, "copy %s" % L["app"], "(KApplication 0)", True, F))
        C.append(("copy-create", a, "copy %s" % L["create"], "(KAuth ACreate)", True, F))
    return C


MUTS = ["flip", "trunc", "zero", "dup", "clear", "rev", "big"]


def adv_base(seed, n):
    rng = random.Random(seed)
    s = bootstrap(n, rng)
    s.cs(0, {1: "w"}, None)
    s.flush()
    s.pub(1, "aabb")
    s.flush()
    outsider_peer = 2 if n > 2 else None
    if outsider_peer is not None and rng.random() < 0.5:
        s.sadd(2, "r")
        s.flush()
        L_add = s.log[-2]
        L_addptr = s.log[-1]
    else:
        L_add = L_addptr = None
    k_cs = [l for l in s.log if s.msgs[l]["kind"] == "(KAuth ACreate)"][0]
    L = {"kb": "%d.%d" % s.log[0], "kb_id": s.msgs[s.log[0]]["id"],
         "create": "%d.%d" % k_cs, "create_id": s.msgs[k_cs]["id"],
         "app": None, "app_id": 0}
    app = [l for l in s.log if s.msgs[l]["kind"].startswith("(KApplication")][0]
    L["app"] = "%d.%d" % app
    L["app_id"] = s.msgs[app]["id"]
    if L_add is None:
        # use the create as "an auth message which is not a create" is unavailable: fall back to create
        L["add"] = L["create"]
        L["add_id"] = L["create_id"]
        L["addptr"] = "%d.%d" % s.log[[i for i, l in enumerate(s.log) if l == k_cs][0] + 1]
        L["has_add"] = False
    else:
        L["add"] = "%d.%d" % L_add
        L["add_id"] = s.msgs[L_add]["id"]
        L["addptr"] = "%d.%d" % L_addptr
        L["has_add"] = True
    return s, L


def adversarial(seed, n, entry_idx, victim):
    s, L = adv_base(seed, n)
    cat = catalogue(L)
    name, author, spec, kind, hok, mode = cat[entry_idx % len(cat)]
    if name in ("sm-unknown-space-add",) and not L["has_add"]:
        # without an add message the reference is a create: the handler decides
        mode = "fuzzy"
    if author is not None and author >= n:
        author = 0
    victim = victim % n
    # promote stored first, then a pointer at it
    label = s.forge(author, victim, spec, kind, hok)
    s.deliver_forged(victim, label, mode)
    s.deliver_forged(victim, label, mode)
    if name in ("promote", "demote"):
        l2 = s.forge(author, victim, "sm 0 sg0 %d.%d h" % label, "(KSpaceMembership 0 %d)" % s.msgs[label]["id"], True)
        s.deliver_forged(victim, l2, "exact")
        s.deliver_forged(victim, l2, "exact")
    other = (victim + 1) % n
    s.deliver_forged(other, label, "free")
    s.deliver_forged(other, label, "free")
    # an honest re-delivery afterwards must still be quiet (free: the forged message may have
    # changed the victim's state in ways the scenario does not track)
    for l in (s.log[0], s.log[-1]):
        s._op("dl %d %d %d" % (victim, l[0], l[1]), None, [victim, s.msgs[l]["id"], "free"])
    return s.case("adv", seed, {"name": name, "victim": victim, "entry": entry_idx})


def mutation(seed, n):
    rng = random.Random(seed)
    s, L = adv_base(seed, n)
    victim = rng.randrange(n)
    src = rng.choice(s.log)
    what = rng.choice(MUTS)
    author = rng.choice([s.msgs[src]["author"], s.msgs[src]["author"], rng.randrange(n), None])
    label = s.forge(author, victim, "mut %d.%d %s %d" % (src[0], src[1], what, rng.randrange(64)), None)
    s.expect[-1] = None   # F:1 or F:!illtyped / nofield
    for q in (victim, victim, (victim + 1) % n, victim):
        s.deliver_forged(q, label, "free")
    for l in (s.log[0], s.log[-1]):
        s._op("dl %d %d %d" % (victim, l[0], l[1]), None, [victim, s.msgs[l]["id"], "free"])
    return s.case("mut", seed, {"name": what, "victim": victim})


def gen(tier, rng):
    quick = tier == "quick"
    nh, ncat_bases, nmut = (60, 1, 60) if quick else (500, 3, 600)
    for i in range(nh):
        seed = rng.randrange(1 << 30)
        n = rng.choice([2, 3, 3, 4] if quick else [2, 3, 3, 4, 4, 5])
        steps = rng.randint(15, 45) if quick else rng.randint(20, 120)
        yield honest(seed, n, steps)
    ncat = len(catalogue({"kb": "0.0", "kb_id": 0, "create": "0.0", "create_id": 0, "app": "0.0", "app_id": 0, "add": "0.0", "add_id": 0, "addptr": "0.0"}))
    for b in range(ncat_bases):
        for e in range(ncat):
            seed = rng.randrange(1 << 30)
            yield adversarial(seed, 3, e, rng.randrange(3))
    for i in range(nmut):
        yield mutation(rng.randrange(1 << 30), rng.choice([2, 3]))


# ------------------------------------------------------------------------------------------------

def harness_line(case):
    return "%d ; %s" % (case["n"], " ; ".join(case["script"]))


def _msg(o, hok=None):
    _t, _p, i, author, kind, ok, _mode, deps = o
    if hok is not None:
        ok = hok
    return "(M %d %d %s [%s] %s)" % (i, author, kind, ";".join("%d%%N" % d for d in deps), "true" if ok else "false")


def _ops(case, flip):
    out = []
    for o in case["mops"]:
        if o[0] == "L":
            out.append("L %d %s" % (o[1], _msg(o)))
        else:
            out.append("D %d %s" % (o[1], _msg(o, (not o[5]) if (flip and o[6] == "fuzzy") else None)))
    return "[" + "; ".join(out) + "]"


def coq_model(case):
    a = "model_line %d %s" % (case["n"], _ops(case, False))
    if any(o[6] == "fuzzy" for o in case["mops"]):
        return '(%s ++ " | " ++ model_line %d %s)%%string' % (a, case["n"], _ops(case, True))
    return a


def _tokens(impl):
    return impl.split()


def _cls(tok):
    """class of a D token in the model's alphabet"""
    parts = tok.split(":")
    if len(parts) != 4:
        return "?"
    _d, res, ev, chg = parts
    if res.startswith("P"):
        return "P"
    if res == "O":
        if chg == "N":
            return "N" if ev == "-" else "X"
        return "C"
    if chg != "N" or ev != "-":
        return "E!"
    path = res.split(".")
    if len(path) > 1 and path[1] == "UnexpectedMessage":
        return "E:U"
    if len(path) > 1 and path[1] == "MissingAuthMessage":
        return "E:M"
    if len(path) > 1 and path[1] == "IncorrectMessageVariant":
        return "E:I"
    return "E:H"


def agree(case, impl, model):
    toks = _tokens(impl)
    if len(toks) != len(case["script"]):
        return False
    got = []
    for k, t in enumerate(toks):
        exp = case["expect"][k]
        d = case["dl"][k]
        if d is None:
            if exp is not None and t != exp:
                return False
        elif d[2] != "free":
            got.append(_cls(t))
    line = " ".join(got)
    return any(line == v.strip() for v in model.split("|"))


def coq_oracle(case, impl):
    toks = _tokens(impl)
    obs = []
    for k, t in enumerate(toks):
        if k >= len(case["dl"]):
            return "false"
        d = case["dl"][k]
        if d is None or t == "D:?" or t.startswith("X:"):
            # a panic in a local API step is outside the property (it is about processing
            # messages); it shows up as a disagreement with the expected `L:n` token instead
            continue
        parts = t.split(":")
        if len(parts) != 4:
            return "false"
        res = 0 if parts[1] == "O" else 2 if parts[1].startswith("P") else 1
        nev = 0 if parts[2] == "-" else len(parts[2])
        obs.append("Ob %d %d %d %d %s" % (d[0], d[1], res, nev, "false" if parts[3] == "N" else "true"))
    auth = "[" + "; ".join("(%d, %d%%N)" % (p, i) for p, i in case["authored"]) + "]"
    return "check %s [%s]" % (auth, "; ".join(obs))


def nontrivial(case, impl):
    toks = _tokens(impl)
    if case["fam"] == "honest":
        n = 0
        for k, t in enumerate(toks):
            if k < len(case["dl"]) and case["dl"][k] is not None and _cls(t) == "N":
                n += 1
        return n >= 2
    # adversarial: the forged message existed and was processed (any result)
    return any(t == "F:1" for t in toks)


def known(case, impl):
    return None


def shrink(case):
    if case["fam"] == "honest" and case.get("steps", 0) > 4:
        for st in (case["steps"] // 2, case["steps"] - 1):
            yield honest(case["seed"], case["n"], st)
        if case["n"] > 2:
            yield honest(case["seed"], case["n"] - 1, case["steps"])


def distribution(cases, impl):
    fam = {}
    cls = {}
    kinds = {}
    lens = []
    redeliveries = 0
    for i, c in enumerate(cases):
        fam[c["fam"]] = fam.get(c["fam"], 0) + 1
        lens.append(len(c["script"]))
        if i in impl:
            for k, t in enumerate(impl[i].split()):
                if k < len(c["dl"]) and c["dl"][k] is not None:
                    x = _cls(t)
                    cls[x] = cls.get(x, 0) + 1
        seen = set()
        for o in c["mops"]:
            if o[0] == "D":
                kd = (o[4] or "?").split()[0].strip("(")
                key = (o[1], o[2])
                if key in seen:
                    redeliveries += 1
                    kinds[kd] = kinds.get(kd, 0) + 1
                seen.add(key)
    return {"families": fam, "delivery_classes": cls, "redelivered_kinds": kinds, "redeliveries": redeliveries,
            "max_ops": max(lens), "mean_ops": round(sum(lens) / len(lens), 1)}


# ------------------------------------------------------------------------------------------------
# witnesses of the repaired findings (findings/C39-*.json are generated from these)

def _cat_index(name, author):
    L = {"kb": "0.0", "kb_id": 0, "create": "0.0", "create_id": 0, "app": "0.0", "app_id": 0, "add": "0.0", "add_id": 0, "addptr": "0.0"}
    for i, e in enumerate(catalogue(L)):
        if e[0] == name and e[1] == author:
            return i
    raise KeyError(name)


def witness(which):
    if which == "space-update":
        return adversarial(11, 3, _cat_index("su-known", 1), 0)
    if which == "promote":
        return adversarial(12, 3, _cat_index("promote", 0), 1)
    if which == "identity":
        return adversarial(13, 3, _cat_index("kb-other-identity", 1), 0)
    if which == "unknown-group":
        return adversarial(14, 3, _cat_index("add-unknown-group", None), 1)
    if which == "unknown-dep":
        return adversarial(15, 3, _cat_index("create-unknown-dep", 1), 0)
    if which == "key-bundle":
        s = bootstrap(2, None)
        s.deliver(1, s.log[0])      # bob: alice's bundle again
        s.deliver(0, s.log[0])      # alice: her own bundle message
        s.kb(0)                      # a second message carrying the same bundle
        s.flush()
        s.deliver(1, s.log[-1])
        return s.case("honest", 0, {"steps": 0})
    if which == "application":
        s = bootstrap(3, None)
        s.cs(0, {1: "w"}, None)
        s.flush()
        s.pub(1, "68656c6c6f")
        s.flush()
        app = s.log[-1]
        s.deliver(0, app)            # member: again
        s.deliver(2, app)            # not welcomed: queued again
        s.deliver(1, app)            # the author itself
        s.sadd(2, "r")
        s.flush()                    # welcome of p2: the queued message is emitted once
        s.deliver(2, app)
        return s.case("honest", 0, {"steps": 0})
    if which == "history-pointer":
        s = bootstrap(2, None)
        s.cg(0, {0: "m", 1: "r"})
        s.cs(0, {}, "w")
        s.flush()
        for l in list(s.log):
            if s.msgs[l]["author"] == 0:
                s.deliver(0, l)
        for l in list(s.log):
            if s.msgs[l]["author"] == 0:
                s.deliver(0, l)
        return s.case("honest", 0, {"steps": 0})
    raise KeyError(which)
