"""C12 — Released orderer items survive cancellation of `next`."""
import itertools

ID = "C12"
HARNESS_PKG = "h_c11"
HARNESS_ARGS = ["c12"]
COQ_IMPORTS = "From PV Require Import Model.Orderer Model.OrdererCancel Oracle.C12."
TECHNIQUE = ("Coq proof over a step-machine model of Orderer::next (await points lock, begin, take_next_ready, commit, commit applied, "
             "get_operation, notified; drop = discard the program counter, open transaction rolled back) on top of the C11 table model + "
             "differential correspondence: the real Orderer::next future is polled by hand and dropped at every await point")
LEVEL_TEXT = ("Proved in Coq (closed under the global context): C12_cancel_safe_before_commit (a next() future dropped anywhere before the commit "
              "is applied leaves tables, operation store and handed-out items exactly unchanged), C12_refuted (the property is FALSE for the code "
              "as it is: dropped between the applied commit and the completion of get_operation, the item is flagged in_queue=FALSE and never "
              "returned by any later next), C12_outside_known (for every schedule of next() futures each dropped after an arbitrary number of "
              "await points outside that class, every ready item is handed out once the queue is drained). Tied to "
              "p2panda-stream/src/orderer/processor.rs on every run: the real Orderer over the real SqliteStore (file-backed, one connection) is hand-polled with a "
              "counting waker and dropped after the k-th poll for k = 1..20 (where it was cut is read off the database), and over a thin "
              "delegating wrapper store that parks the future at each named await point, for single cuts, pairs and random schedules "
              "interleaved with deliveries. The finding is reproduced on the real SqliteStore (no wrapper needed).")
LEVEL_NOTE = ("KNOWN FINDING cancel-after-commit (open): Orderer::next commits in_queue=FALSE and then awaits get_operation; a drop there (what "
              "Buffer's select! does when input arrives) loses the item. No small repair: the commit itself is an await point. The model has one "
              "step per await point; the real futures return Pending several times inside one point (k polls map to points only through "
              "observation). Lock contention, store errors and tokio primitives are not modelled. The Buffer/ProcessorStream path is probed (timing "
              "dependent, a few cases; items are lost there too: e.g. 19 of 20 delivered); the cancellation it performs is what the harness "
              "does deterministically.")
ASSUMPTIONS = ["a dropped uncommitted sqlx transaction is rolled back (TransactionPermit::drop spawns the rollback); a COMMIT that reached SQLite "
               "stays applied when the awaiting future is dropped",
               "no contention on the orderer mutex / transaction semaphore while next() is polled (single caller, as in Buffer)",
               "every released id has an operation in the operation store (ops_present; otherwise next returns StoreInconsistency)"]
TRUSTED = ["modelled not verified: sqlx/SQLite commit+rollback semantics, tokio Mutex/Semaphore/Notify, the mapping of polls to await points",
           "harness wrapper store (delegates every call to the real SqliteStore, adds parking points only)",
           "hook: p2panda-stream/src/orderer/verif_c11.rs (Ordering<Hash> for Operation<E: VerifDependencies>)"]
RULE = ("wrap (+ k = 1..10 polls on the wrapper store, where the wrapper names the call that was cut): for chains/diamonds (causal and reversed delivery order) every single cancellation point {begin, take, commit0, commit1, getop, "
        "notified, none} at every position between deliveries, all pairs of points, random schedules of 3-5 attempts interleaved with deliveries; "
        "direct (real SqliteStore): k = 1..20 polls then drop, and pairs (k1, k2); buffer: n operations fed through the public ProcessorStream/Buffer "
        "layer some ms apart (timing dependent, oracle only: all delivered, or lost with every row flagged out of the queue). non-trivial = at least one attempt really cancelled (not run to "
        "completion) with at least one item in the queue")
NONTRIVIAL_FLOOR = 30
HARNESS_TIMEOUT = 1800
COQ_SHARD = 100
NO_ESCALATE = False

POINTS = ["begin", "take", "commit0", "commit1", "getop", "notified", "none"]
COQ_POINT = {"begin": "CBegin", "take": "CTake", "commit0": "CCommit0", "commit1": "CCommit1", "getop": "CGetOp",
             "notified": "CNotified", "none": "CNone"}
LOSING = ("commit1", "getop", "post")
FINDING = "cancel-after-commit"


# ------------------------------------------------------------------------------------------------
# generators
# ------------------------------------------------------------------------------------------------

def _scenarios():
    """deliveries with a deterministic release order (every cascade has at most one dependent)"""
    yield [["d", 0, []]]
    yield [["d", 0, []], ["d", 1, [0]]]
    yield [["d", 1, [0]], ["d", 0, []]]
    yield [["d", 0, []], ["d", 1, [0]], ["d", 2, [1]]]
    yield [["d", 2, [1]], ["d", 1, [0]], ["d", 0, []]]
    yield [["d", 0, []], ["d", 1, [0]], ["d", 2, [0]], ["d", 3, [1, 2]]]
    yield [["d", 0, []], ["d", 1, [0, 0]], ["d", 2, [7]], ["d", 3, []]]
    yield [["d", 1, [0]], ["d", 2, []], ["d", 0, []], ["d", 3, [2, 1]]]


def _insert(delivs, pos_attempts):
    """pos_attempts: list of (position, step); position p = before delivery p (len = after all)"""
    out = []
    for p in range(len(delivs) + 1):
        for q, a in pos_attempts:
            if q == p:
                out.append(a)
        if p < len(delivs):
            out.append(delivs[p])
    return out


def gen(tier, rng):
    scen = list(_scenarios())
    # wrapper store: every single point at every position
    for ds in scen:
        positions = range(len(ds) + 1) if tier == "thorough" else sorted({0, len(ds) // 2 + 1 if len(ds) > 1 else 1, len(ds)})
        for pos in positions:
            for pt in POINTS:
                yield {"mode": "wrap", "steps": _insert(ds, [(pos, ["a", pt])])}
    # all pairs of points after all deliveries (and split around the last delivery)
    for ds in scen[2:5] if tier == "quick" else scen:
        for p1, p2 in itertools.product(POINTS, repeat=2):
            yield {"mode": "wrap", "steps": _insert(ds, [(len(ds), ["a", p1]), (len(ds), ["a", p2])])}
            if tier == "thorough":
                yield {"mode": "wrap", "steps": _insert(ds, [(len(ds) - 1, ["a", p1]), (len(ds), ["a", p2])])}
    # random schedules
    for _ in range(80 if tier == "quick" else 800):
        ds = rng.choice(scen)
        k = rng.randint(3, 5)
        atts = sorted(((rng.randint(0, len(ds)), ["a", rng.choice(POINTS)]) for _ in range(k)), key=lambda t: t[0])
        yield {"mode": "wrap", "steps": _insert(ds, atts)}
    # wrapper store, but cut after k polls at the natural Pending points of the real store
    for ds in (scen[3],) if tier == "quick" else scen[:6]:
        for k in range(1, 11):
            yield {"mode": "wrap", "steps": _insert(ds, [(len(ds), ["k", k])])}
        for _ in range(10):
            yield {"mode": "wrap", "steps": _insert(ds, [(rng.randint(1, len(ds)), ["k", rng.randint(1, 8)]), (len(ds), ["k", rng.randint(1, 8)])])}
    # the real SqliteStore, dropped after k polls
    kmax = 20 if tier == "quick" else 40
    for ds in (scen[0], scen[3]) if tier == "quick" else scen[:6]:
        for k in range(1, kmax + 1):
            yield {"mode": "direct", "steps": _insert(ds, [(len(ds), ["k", k])])}
    for _ in range(30 if tier == "quick" else 300):
        ds = rng.choice(scen[1:6])
        p1 = rng.randint(0, len(ds))
        yield {"mode": "direct", "steps": _insert(ds, [(p1, ["k", rng.randint(1, 12)]), (len(ds), ["k", rng.randint(1, 12)])])}
    # probe through the public stream layer (ProcessorStream -> Buffer -> Orderer): timing dependent,
    # judged by the oracle only (all delivered, or lost with the signature of the known finding)
    for n, gap in ([(20, 3000), (30, 5000), (20, 1000)] if tier == "quick" else
                   [(20, 0), (20, 200), (20, 1000), (20, 3000), (30, 100), (30, 5000), (50, 500), (50, 2000),
                    (40, 4000), (40, 8000), (25, 2500), (60, 3000)]):
        yield {"mode": "buffer", "n": n, "gap": gap}


# ------------------------------------------------------------------------------------------------
# rendering
# ------------------------------------------------------------------------------------------------

def _buffer_parse(impl):
    d = dict(t.split("=") for t in impl.split() if "=" in t)
    m, n = d["delivered"].split("/")
    return int(m), int(n), int(d["flagged_out"]), int(d["queued"]), int(d["distinct"])


def harness_line(case):
    if case["mode"] == "buffer":
        return "buffer %d %d" % (case["n"], case["gap"])
    toks = []
    for s in case["steps"]:
        if s[0] == "d":
            toks.append("d%d:%s" % (s[1], ",".join(map(str, s[2]))))
        elif s[0] == "a":
            toks.append("a:%s" % s[1])
        else:
            toks.append("k:%d" % s[1])
    return case["mode"] + " " + " ".join(toks)


def _nl(xs):
    return "[" + ";".join("%d%%N" % x for x in xs) + "]"


def _nodes(case):
    ns = set()
    for s in case["steps"]:
        if s[0] == "d":
            ns.add(s[1])
            ns.update(s[2])
    return sorted(ns)


def _coq_steps(case, points):
    """points: the cancellation point to use for each attempt, in order"""
    it = iter(points)
    parts = []
    for s in case["steps"]:
        if s[0] == "d":
            parts.append("SDeliver %d%%N %s" % (s[1], _nl(s[2])))
        else:
            parts.append("SAttempt %s" % COQ_POINT[next(it)])
    return "[" + ";".join(parts) + "]"


def _attempts(case):
    return [s for s in case["steps"] if s[0] in ("a", "k")]


def coq_model(case):
    if case["mode"] == "buffer":
        return '"buffer"%string'
    atts = _attempts(case)
    # an attempt cut after k polls: where that is, is a matter of timing; the model lists the outcome
    # for every possibility (direct: {before the commit is applied, after it, completed}; wrapper
    # store: every named point) and the observation has to be one of them
    choices = []
    for a in atts:
        if a[0] == "a":
            choices.append([a[1]])
        elif case["mode"] == "direct":
            choices.append(["commit0", "getop", "none"])
        else:
            choices.append(["begin", "take", "commit0", "commit1", "getop", "none"])
    alts = []
    for combo in itertools.product(*choices):
        alts.append("model_line %s %s" % (_nl(_nodes(case)), _coq_steps(case, combo)))
    return ' ++ " ## " ++ '.join("(%s)" % a for a in alts)


def _parse(impl):
    """-> (list of (class, returned or None), drained list)"""
    left, _, right = impl.partition("|")
    atts = []
    for t in left.split():
        c, _, v = t.partition("=")
        atts.append((c, None if v == "-" else int(v)))
    body = right.strip()
    if not (body.startswith("[") and body.endswith("]")):
        raise ValueError(impl)
    drained = [int(x) for x in body[1:-1].split(",") if x]
    return atts, drained


def coq_oracle(case, impl):
    if case["mode"] == "buffer":
        m, n, flagged, queued, distinct = _buffer_parse(impl)      # raises on STUCK/PANIC -> false
        if queued > 0:
            return "true"          # the probe gave up waiting (machine load): inconclusive, not judged
        return "Nat.eqb %d %d && Nat.eqb %d %d" % (m, n, distinct, n)
    atts, drained = _parse(impl)
    observed = [v for _, v in atts if v is not None] + drained
    dels = "[" + ";".join("(%d%%N, %s)" % (s[1], _nl(s[2])) for s in case["steps"] if s[0] == "d") + "]"
    return "check %s %s" % (dels, _nl(observed))


_DIRECT_CLASS = {"begin": "pre", "take": "pre", "commit0": "pre", "lock": "pre", "notified": "pre",
                 "commit1": "post", "getop": "post", "done": "done", "pre": "pre", "post": "post"}


def _norm_direct(line):
    atts, drained = _parse(line)
    return [(_DIRECT_CLASS.get(c, c), v) for c, v in atts], drained


def agree(case, impl, model):
    if case["mode"] == "buffer":
        try:
            _buffer_parse(impl)
            return model == "buffer"
        except Exception:
            return False
    try:
        if case["mode"] == "wrap":
            want = _parse(impl)
            return any(_parse(alt) == want for alt in model.split(" ## "))
        want = _norm_direct(impl)
        return any(_norm_direct(alt) == want for alt in model.split(" ## "))
    except Exception:
        return False


def known(case, impl):
    """only cases in which some next() future was dropped after the commit had been applied"""
    if case["mode"] == "buffer":
        # signature of the class seen from outside: every item was taken out of the queue (all rows
        # in_queue = FALSE, none queued), nothing came out twice, and some never came out
        try:
            m, n, flagged, queued, distinct = _buffer_parse(impl)
        except Exception:
            return None
        return FINDING if (m < n and flagged == n and queued == 0 and distinct == m) else None
    try:
        atts, _ = _parse(impl)
    except Exception:
        return None
    return FINDING if any(c in LOSING for c, _ in atts) else None


def nontrivial(case, impl):
    if case["mode"] == "buffer":
        return False
    try:
        atts, drained = _parse(impl)
    except Exception:
        return False
    cancelled = [c for c, _ in atts if c not in ("done", "notified")]
    return bool(cancelled) and (len(drained) + sum(1 for _, v in atts if v is not None)) >= 1


def shrink(case):
    if case["mode"] == "buffer":
        return
    st = case["steps"]
    for i in range(len(st)):
        yield {"mode": case["mode"], "steps": st[:i] + st[i + 1:]}


def distribution(cases, impl):
    classes, modes = {}, {}
    lost = 0
    buf = []
    for i, c in enumerate(cases):
        modes[c["mode"]] = modes.get(c["mode"], 0) + 1
        if c["mode"] == "buffer":
            if i in impl:
                buf.append("n=%d gap_us=%d: %s" % (c["n"], c["gap"], impl[i]))
            continue
        if i in impl:
            try:
                atts, _ = _parse(impl[i])
            except Exception:
                continue
            for cl, _ in atts:
                key = c["mode"] + ":" + cl
                classes[key] = classes.get(key, 0) + 1
            if any(cl in LOSING for cl, _ in atts):
                lost += 1
    return {"modes": modes, "cancellation_points_observed": dict(sorted(classes.items())),
            "cases_with_a_cut_after_commit": lost,
            "reproduced_on_real_sqlite_store": classes.get("direct:post", 0) > 0,
            "public_stream_layer_probe": buf}


REGISTERED = True
