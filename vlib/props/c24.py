"""C24 — De-duplication buffer remembers exactly the last `capacity` items."""
import itertools

ID = "C24"
HARNESS_PKG = "h_c24"
COQ_IMPORTS = "From PV Require Import Model.Dedup Oracle.C24."
TECHNIQUE = "Coq proof (induction over the insertion sequence: buffer = last cap accepted items) + differential correspondence of the Gallina model with the real DeduplicationBuffer"
LEVEL_TEXT = ("Theorems C24_content_is_lastn / C24_never_exceeds_capacity / C24_buffer_nodup are proved in Coq for every capacity >= 1 "
              "and every insertion sequence (no bound). The model is tied to p2panda-sync/src/dedup.rs on every run by running the real "
              "DeduplicationBuffer (cfg hook re-export) and the Gallina model on the same insertion sequences: exhaustive over small "
              "alphabets/capacities plus random long sequences; the proved-sound oracle is evaluated on the implementation's answers.")
LEVEL_NOTE = ("Trusted: Coq kernel + vm_compute; hand-written model; VecDeque::with_capacity(n).capacity()==n (observed through the "
              "eviction schedule on every run, not assumed silently); harness/python glue. Correspondence is differential testing.")
ASSUMPTIONS = ["VecDeque::with_capacity(n) allocates capacity exactly n (checked by the eviction-schedule observation for the capacities explored)",
               "capacity >= 1 (the property's own guard); items compared by Eq/Hash = equality on u64 ids"]
TRUSTED = ["modelled not verified: HashSet mirror of the VecDeque, allocation capacity"]
RULE = ("quick: all sequences of length <= 5 over alphabet {0,1,2} x cap 1..3 plus 300 random sequences (length <= 60, alphabet <= 8, cap 1..6); "
        "thorough: all sequences of length <= 7 over 4 items x cap 1..5 plus 3000 random (length <= 400, cap up to 40). "
        "non-trivial = at least one duplicate answer and at least one eviction (an accepted insert into a full buffer)")


def gen(tier, rng):
    if tier == "quick":
        maxlen, alpha, caps, nrand, rl, rc = 5, 3, range(1, 4), 300, 60, 6
    else:
        maxlen, alpha, caps, nrand, rl, rc = 7, 4, range(1, 6), 3000, 400, 40
    for n in range(0, maxlen + 1):
        for xs in itertools.product(range(alpha), repeat=n):
            # canonical up to renaming: first occurrences appear in increasing order
            seen = -1
            ok = True
            for x in xs:
                if x > seen + 1:
                    ok = False
                    break
                seen = max(seen, x)
            if not ok:
                continue
            for c in caps:
                yield {"cap": c, "xs": list(xs)}
    for _ in range(nrand):
        c = rng.randint(1, rc)
        a = rng.randint(1, max(2, min(2 * c, 8 if tier == "quick" else 60)))
        n = rng.randint(0, rl)
        yield {"cap": c, "xs": [rng.randrange(a) for _ in range(n)]}


def harness_line(case):
    return "%d %s" % (case["cap"], " ".join(map(str, case["xs"])))


def _nl(xs):
    return "[" + ";".join("%d%%N" % x for x in xs) + "]"


def coq_model(case):
    return "model_line %d %s" % (case["cap"], _nl(case["xs"]))


def coq_oracle(case, impl):
    parts = [p.strip() for p in impl.split("|")]
    if len(parts) != 3:
        return "false"
    answers = "[" + ";".join("true" if ch == "1" else "false" for ch in parts[0]) + "]"
    final = [int(t) for t in parts[1].split(",") if t]
    ev = "[" + ";".join(t for t in parts[2].split(",") if t) + "]"
    return "check %d %s %s %s %s" % (case["cap"], _nl(case["xs"]), answers, _nl(final), ev)


def nontrivial(case, impl):
    ans = impl.split("|")[0].strip()
    return "0" in ans and ans.count("1") > case["cap"]


def shrink(case):
    xs = case["xs"]
    for i in range(len(xs)):
        yield {"cap": case["cap"], "xs": xs[:i] + xs[i + 1:]}
    if case["cap"] > 1:
        yield {"cap": case["cap"] - 1, "xs": xs}


def distribution(cases, impl):
    lens = [len(c["xs"]) for c in cases]
    caps = {}
    for c in cases:
        caps[c["cap"]] = caps.get(c["cap"], 0) + 1
    return {"max_len": max(lens), "mean_len": round(sum(lens) / len(lens), 1), "caps": {str(k): v for k, v in sorted(caps.items())}}
