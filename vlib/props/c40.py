"""C40 — Topic sync metrics count every session's bytes exactly once; running = started - ended."""
import itertools

ID = "C40"
HARNESS_PKG = "h_node_tasks"
HARNESS_ARGS = ["c40"]
COQ_IMPORTS = "From PV Require Import Model.SyncMetrics Oracle.C40."
TECHNIQUE = ("Coq proof (potential argument by induction over the interleaved history with per-session life-cycle phases generalised) "
             "over a transcription of Aggregator::process + differential correspondence of the Gallina model with the real Aggregator")
LEVEL_TEXT = ("Proved in Coq for every history (any number of sessions, any interleaving, no bound) whose per-session projections follow the "
              "documented life cycle: C40_totals_exact (topic totals = sum over sessions of sync+live of finished sessions and the sync figure "
              "of sessions past their sync phase, each byte once), C40_no_panic_within_u32, C40_running_is_started_minus_ended / "
              "C40_running_is_open_sessions, C40_running_zero_without_session_started, C40_asis_double_counts (regression witness for the code "
              "before the repair). Failed sessions only as C40_failed_session_not_overcounted_partial. The model is tied to "
              "p2panda/src/streams/sync_metrics.rs on every run: the real Aggregator (cfg hook) and the model process the same histories "
              "(all interleavings of two short sessions, random interleavings of 1-4 sessions, perturbed and overflow histories) and every "
              "observation (counters and returned event after each call) is compared; the oracle is evaluated on the implementation's counters.")
LEVEL_NOTE = ("Partial for failed sessions: Failed carries no metrics, so a failed session is counted with its sync figure (if SyncFinished was "
              "seen) or not at all - proved not to over-count, may under-count. The statement about running sessions is about the Aggregator's "
              "input: the sync layer never emits SessionStarted today (finding of C22), so the count applications see is always 0 "
              "(C40_running_zero_without_session_started). Trusted: Coq kernel + vm_compute; hand-written model; harness/python glue; "
              "correspondence is differential testing.")
ASSUMPTIONS = ["per-session event sequences follow the life cycle of TopicLogSyncEvent (wf_session): SyncFinished reports no live traffic, later events of a session repeat its sync figures",
               "all per-session sums, the exact totals and the number of sessions stay below 2^32 (u32 counters; beyond that a debug build panics, which the model reproduces, a release build wraps, which is not modelled)",
               "running = started - ended presupposes that sessions announce themselves with SessionStarted (they do not today: C22)"]
TRUSTED = ["modelled not verified: HashMap/HashSet as finite maps, u32 debug-build arithmetic (overflow = panic)",
           "which event sequences a real session emits (C22) is not part of this model"]
RULE = ("quick: all interleavings of two fixed short sessions (finished without live traffic x failed in live mode; 462 + 126 histories for the two start modes), "
        "600 random interleavings of 1-4 random life-cycle walks (cut anywhere), 150 perturbed (dropped/duplicated/swapped events, free metrics), "
        "30 near the u32 boundary; thorough: 3 fixed pairs, 3000 random, 600 perturbed, 100 boundary. non-trivial = well-formed history with >= 2 "
        "sessions in which a SessionFinished follows a SyncFinished with non-zero sync bytes (the double-count site)")
NONTRIVIAL_FLOOR = 50
REGISTERED = True

M_KINDS = (1, 2, 3, 4)  # events carrying metrics
ZERO = [0] * 12


def _m(ob=0, oo=0, ib=0, io=0, ssb=0, sso=0, rsb=0, rso=0, slb=0, slo=0, rlb=0, rlo=0):
    return [ob, oo, ib, io, ssb, sso, rsb, rso, slb, slo, rlb, rlo]


def _walk(rng, sid, ns, big=False):
    """One random walk through the session life cycle (possibly cut), as [sid, kind, metrics]."""
    out = []
    if ns:
        out.append([sid, 0, None])
        if rng.random() < 0.08:
            out.append([sid, 5, None])
            return out
    scale = (1 << 31) if big else 2000
    est = _m(ob=rng.randrange(scale), oo=rng.randrange(50), ib=rng.randrange(scale), io=rng.randrange(50))
    out.append([sid, 1, est])
    cur = list(est)
    for _ in range(rng.randrange(4)):
        cur = list(cur)
        cur[6] += rng.randrange(1, scale // 4 + 2)
        cur[7] += 1
        out.append([sid, 2, cur])
    if rng.random() < 0.15:
        out.append([sid, 5, None])
        return out
    fin = list(cur)
    fin[4] = rng.randrange(scale)
    fin[5] = rng.randrange(50)
    fin[6] += rng.randrange(scale // 4 + 1)
    out.append([sid, 3, fin])
    r = rng.random()
    if r < 0.3:
        out.append([sid, 4, list(fin)])
        return out
    if r < 0.36:
        out.append([sid, 5, None])
        return out
    out.append([sid, 6, None])
    cur = list(fin)
    for _ in range(rng.randrange(4)):
        cur = list(cur)
        cur[10] += rng.randrange(1, scale // 4 + 2)
        cur[11] += 1
        if rng.random() < 0.5:
            cur[8] += rng.randrange(1, scale // 4 + 2)
            cur[9] += 1
        out.append([sid, 2, cur])
    if rng.random() < 0.2:
        out.append([sid, 5, None])
        return out
    last = list(cur)
    last[8] += rng.randrange(scale // 4 + 1)
    last[9] += 1
    out.append([sid, 4, last])
    return out


def _interleave(rng, seqs):
    seqs = [list(s) for s in seqs if s]
    out = []
    while seqs:
        i = rng.randrange(len(seqs))
        out.append(seqs[i].pop(0))
        if not seqs[i]:
            seqs.pop(i)
    return out


def _all_interleavings(a, b):
    n, k = len(a) + len(b), len(a)
    for pos in itertools.combinations(range(n), k):
        ia, ib, out, ps = 0, 0, [], set(pos)
        for i in range(n):
            if i in ps:
                out.append(a[ia]); ia += 1
            else:
                out.append(b[ib]); ib += 1
        yield out


def _fixed_pairs(ns):
    s = lambda sid: [[sid, 0, None]] if ns else []
    a = s(1) + [[1, 1, _m(ob=10, ib=20)], [1, 3, _m(ssb=10, sso=1, rsb=20, rso=2)],
                [1, 4, _m(ssb=10, sso=1, rsb=20, rso=2)]]
    b = s(2) + [[2, 1, ZERO], [2, 3, _m(ssb=7, sso=1, rsb=5, rso=1)], [2, 6, None],
                [2, 2, _m(ssb=7, sso=1, rsb=5, rso=1, rlb=3, rlo=1)], [2, 5, None]]
    c = s(3) + [[3, 1, ZERO], [3, 3, _m(ssb=4, sso=1)], [3, 6, None],
                [3, 4, _m(ssb=4, sso=1, slb=9, slo=2, rlb=1, rlo=1)]]
    return [(a, b), (a, c), (b, c)]


def gen(tier, rng):
    quick = tier == "quick"
    npairs, nrand, npert, nbig = (1, 600, 150, 30) if quick else (3, 3000, 600, 100)
    for ns in (True, False):
        for (a, b) in _fixed_pairs(ns)[:npairs]:
            for evs in _all_interleavings(a, b):
                yield {"ns": ns, "evs": evs}
    for _ in range(nrand):
        ns = rng.random() < 0.6
        k = rng.randint(1, 4)
        sids = rng.sample(range(1, 9), k)
        evs = _interleave(rng, [_walk(rng, s, ns) for s in sids])
        if rng.random() < 0.3 and evs:
            evs = evs[:rng.randrange(1, len(evs) + 1)]
        yield {"ns": ns, "evs": evs}
    for _ in range(npert):
        ns = rng.random() < 0.5
        evs = _interleave(rng, [_walk(rng, s, ns) for s in rng.sample(range(1, 6), rng.randint(1, 3))])
        for _ in range(rng.randint(1, 3)):
            if not evs:
                break
            i = rng.randrange(len(evs))
            r = rng.random()
            if r < 0.25:
                evs.pop(i)
            elif r < 0.5:
                evs.insert(i, [evs[i][0], evs[i][1], None if evs[i][2] is None else list(evs[i][2])])
            elif r < 0.7:
                j = rng.randrange(len(evs))
                evs[i], evs[j] = evs[j], evs[i]
            elif r < 0.85:
                k = rng.choice([0, 1, 2, 3, 4, 5, 6])
                evs[i] = [evs[i][0], k, [rng.randrange(300) for _ in range(12)] if k in M_KINDS else None]
            else:
                evs[i] = [rng.randint(1, 6), evs[i][1], evs[i][2]]
        yield {"ns": ns, "evs": evs}
    for _ in range(nbig):
        ns = rng.random() < 0.5
        evs = _interleave(rng, [_walk(rng, s, ns, big=True) for s in rng.sample(range(1, 6), rng.randint(1, 4))])
        yield {"ns": ns, "evs": evs}


def harness_line(case):
    parts = []
    for sid, kind, m in case["evs"]:
        t = "%d %d" % (sid, kind)
        if kind in M_KINDS:
            t += " " + " ".join(map(str, m if m is not None else ZERO))
        parts.append(t)
    return ";".join(parts)


def _cm(m):
    return "(Build_metrics " + " ".join("%d%%N" % x for x in (m if m is not None else ZERO)) + ")"


_CONS = {0: "SessionStarted", 5: "Failed", 6: "LiveModeStarted"}
_MCONS = {1: "SyncStarted", 2: "OperationReceived", 3: "SyncFinished", 4: "SessionFinished"}


def _cevs(evs):
    items = []
    for sid, kind, m in evs:
        e = _CONS[kind] if kind in _CONS else "(%s %s)" % (_MCONS[kind], _cm(m))
        items.append("(%d%%N, %s)" % (sid, e))
    return "[" + ";".join(items) + "]"


def coq_model(case):
    return "model_line %s" % _cevs(case["evs"])


def _parse(impl):
    obs, panicked = [], False
    if not impl.strip():
        return obs, panicked
    for ent in impl.split("|"):
        if ent == "PANIC":
            panicked = True
            break
        f = ent.split(",")
        obs.append((int(f[0]), int(f[1]), int(f[2])))
    return obs, panicked


def coq_oracle(case, impl):
    obs, panicked = _parse(impl)
    o = "[" + ";".join("(%d%%N,%d%%N,%d%%N)" % t for t in obs) + "]"
    return "check %s %s %s %s" % ("true" if case["ns"] else "false", _cevs(case["evs"]), o, "true" if panicked else "false")


def _wf(case):
    """python mirror of wf_history used only for the non-triviality/distribution statistics."""
    ph = {}
    for sid, kind, m in case["evs"]:
        p = ph.get(sid, "init")
        nl = m is not None and m[8] == 0 and m[9] == 0 and m[10] == 0 and m[11] == 0
        if p == "init" and kind == 0:
            q = "started"
        elif (p == "init" and not case["ns"] and kind == 1) or (p == "started" and kind == 1):
            q = "syncing"
        elif p in ("started", "syncing") and kind == 5:
            q = "failed"
        elif p == "syncing" and kind == 2 and nl:
            q = "syncing"
        elif p == "syncing" and kind == 3 and nl:
            q = ("synced", m[4], m[6])
        elif isinstance(p, tuple) and p[0] in ("synced", "live") and kind == 5:
            q = "failed"
        elif isinstance(p, tuple) and p[0] == "synced" and kind == 6:
            q = ("live", p[1], p[2])
        elif isinstance(p, tuple) and p[0] == "synced" and kind == 4 and nl and (m[4], m[6]) == p[1:]:
            q = "finished"
        elif isinstance(p, tuple) and p[0] == "live" and kind == 2 and (m[4], m[6]) == p[1:]:
            q = p
        elif isinstance(p, tuple) and p[0] == "live" and kind == 4 and (m[4], m[6]) == p[1:]:
            q = "finished+"
        else:
            return False, False
        ph[sid] = q
    site = False
    synced = {}
    for sid, kind, m in case["evs"]:
        if kind == 3 and (m[4] or m[6]):
            synced[sid] = True
        if kind == 4 and synced.get(sid):
            site = True
    return True, site


def nontrivial(case, impl):
    wf, site = _wf(case)
    return wf and site and len({e[0] for e in case["evs"]}) >= 2 and "PANIC" not in impl


def shrink(case):
    evs = case["evs"]
    for i in range(len(evs)):
        yield {"ns": case["ns"], "evs": evs[:i] + evs[i + 1:]}
    sids = sorted({e[0] for e in evs})
    for s in sids:
        yield {"ns": case["ns"], "evs": [e for e in evs if e[0] != s]}
    for i, (sid, kind, m) in enumerate(evs):
        if m is not None and any(m):
            for j in range(12):
                if m[j] > 1:
                    m2 = list(m)
                    m2[j] = m[j] // 2
                    yield {"ns": case["ns"], "evs": evs[:i] + [[sid, kind, m2]] + evs[i + 1:]}


def distribution(cases, impl):
    n = len(cases)
    wf = sum(1 for c in cases if _wf(c)[0])
    site = sum(1 for c in cases if all(_wf(c)))
    lens = [len(c["evs"]) for c in cases]
    nsess = {}
    for c in cases:
        k = len({e[0] for e in c["evs"]})
        nsess[k] = nsess.get(k, 0) + 1
    kinds = {}
    for c in cases:
        for e in c["evs"]:
            kinds[e[1]] = kinds.get(e[1], 0) + 1
    return {"cases": n, "well_formed": wf, "with_double_count_site": site,
            "panics_on_impl": sum(1 for v in impl.values() if "PANIC" in v),
            "max_len": max(lens), "mean_len": round(sum(lens) / n, 1),
            "sessions": {str(k): v for k, v in sorted(nsess.items())},
            "event_kinds": {str(k): v for k, v in sorted(kinds.items())}}
