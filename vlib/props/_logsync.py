"""Shared helpers of the log sync properties C19 / C20 / C21 (not a property module).

Python representation (JSON-serialisable):
  logs : [[author, [log, ...]], ...]            ascending authors / logs, log lists non-empty
  rep  : [[author, log, [[seq, size], ...]], ...] ascending keys and seqs
  have : [[author, [[log, height], ...]], ...]
"""
FOREIGN = 7        # author index the scripted C20 peer uses for its own operations


def op_id(a, l, s):
    return (a * 64 + l) * 100000 + s


def g_rows(a, l, rows):
    return "[" + ";".join("mkrow %d %d %d" % (s, op_id(a, l, s), z) for s, z in rows) + "]"


def g_replica(rep):
    return "([" + ";".join("((%d,%d),%s)" % (a, l, g_rows(a, l, rows)) for a, l, rows in rep) + "])%N"


def g_logs(logs):
    return "([" + ";".join("(%d,[%s])" % (a, ";".join(str(l) for l in ls)) for a, ls in logs) + "])%N"


def g_heights(have):
    return "([" + ";".join("(%d,[%s])" % (a, ";".join("(%d,%d)" % (l, h) for l, h in ls)) for a, ls in have) + "])%N"


def h_logs(logs):
    return ";".join("%d:%s" % (a, ",".join(str(l) for l in ls)) for a, ls in logs) or "-"


def h_rep(rep):
    return ";".join("%d.%d:%s" % (a, l, ",".join("%d/%d" % (s, z) for s, z in rows)) for a, l, rows in rep if rows) or "-"


def h_have(have):
    return ";".join("%d:%s" % (a, ",".join("%d=%d" % (l, h) for l, h in ls)) for a, ls in have) or "-"


def rep_dict(rep):
    return {(a, l): [list(x) for x in rows] for a, l, rows in rep}


def dict_rep(d):
    return [[a, l, sorted(rows)] for (a, l), rows in sorted(d.items()) if rows]


def parse_msgs(text):
    """Harness rendering -> Gallina [list msg] (the Have content is irrelevant to the oracles)."""
    out = []
    for t in text.split():
        if t.startswith("H["):
            out.append("Have []")
        elif t.startswith("P"):
            o, b = t[1:].split(":")
            out.append("PreSync %d %d" % (int(o), int(b)))
        elif t.startswith("O"):
            key, z = t[1:].split("/")
            a, l, s = (int(x) for x in key.split("."))
            out.append("Operation %d %d (mkrow %d %d %d)" % (a, l, s, op_id(a, l, s), int(z)))
        elif t == "D":
            out.append("Done")
        else:
            raise ValueError(t)
    return "([" + ";".join(out) + "])%N"


def parse_ops(text):
    out = []
    for t in text.split():
        key, z = t.split("/")
        a, l, s = (int(x) for x in key.split("."))
        out.append("(%d,%d,mkrow %d %d %d)" % (a, l, s, op_id(a, l, s), int(z)))
    return "([" + ";".join(out) + "])%N"


def heights_of(rep, logs):
    """Have a replica announces for a configuration (python mirror, used only by generators)."""
    d = rep_dict(rep)
    out = []
    for a, ls in logs:
        hs = [[l, max(s for s, _ in d[(a, l)])] for l in ls if d.get((a, l))]
        if hs:
            out.append([a, hs])
    return out


def rand_rows(rng, maxlen, universe=None, a=0, l=0):
    """A log: seqs lo..hi (a pruned prefix when lo > 0), sometimes with a gap."""
    n = rng.randint(0, maxlen)
    if n == 0:
        return []
    lo = rng.choice([0, 0, 0, rng.randint(0, 3)])
    seqs = list(range(lo, lo + n))
    if n > 2 and rng.random() < 0.15:
        del seqs[rng.randrange(1, n - 1)]
    rows = []
    for s in seqs:
        if universe is not None:
            z = universe.setdefault((a, l, s), rng.randint(480, 1200))
        else:
            z = rng.randint(480, 1200)
        rows.append([s, z])
    return rows
