"""C17 — An ephemeral subscription never stalls on invalid messages."""
import itertools

ID = "C17"
HARNESS_PKG = "h_eph"
HARNESS_ARGS = ["c17"]
COQ_IMPORTS = "From PV Require Import Model.EphemeralSub Oracle.C17."
TECHNIQUE = ("Coq proof over a step-machine model of poll_next with the waker contract explicit (executor polls only when woken; channel "
             "with capacity/lag; induction over phases of sends) + differential correspondence with the real EphemeralStreamSubscription "
             "polled by hand with a counting waker, and run as a tokio task")
LEVEL_TEXT = ("Proved in Coq, no bound on queue length, number of invalid/lagged items, capacity or number of phases: "
              "C17_valid_eventually_yielded (a valid message behind any finite prefix of invalid/lagged items is returned by the next poll), "
              "C17_pending_is_live (Pending only with nothing unread and the waker registered), C17_never_stalls (any grouping of sends into "
              "phases, any overflow: the consumer gets exactly the valid messages the channel retained, ends on close, otherwise parked with "
              "its waker registered), C17_oracle_sound; regression theorems C17_asis_refuted / C17_asis_stalled_forever for the code before "
              "the repair. Tied to p2panda/src/streams/ephemeral_stream.rs on every run: the real subscription over a real tokio broadcast "
              "channel (cfg hook constructors), all interleavings of valid/invalid messages up to length 4-6 in all phase groupings and "
              "capacities 1,2,4 (overflow => Lagged), random long scenarios, five kinds of invalid bytes; the harness re-polls after Pending "
              "only if the waker was woken; plus in-runtime floods (> tokio's coop budget) with a time-out.")
LEVEL_NOTE = ("Trusted: Coq kernel + vm_compute; hand-written model; tokio broadcast semantics (retains last cap messages, one Lagged at the "
              "receiver's cursor, wakes registered receivers on send/close) and tokio's cooperative budget are modelled, not verified "
              "(exercised by the correspondence runs); message validity is a tag in this model (C16 covers from_bytes). Correspondence is "
              "differential testing.")
ASSUMPTIONS = ["executor honours the waker contract: a task that returned Pending is polled again only after its waker was woken",
               "tokio broadcast channel: capacity a power of two, keeps the last cap unread messages, reports the loss once as Lagged",
               "capacity >= 1"]
TRUSTED = ["modelled not verified: tokio::sync::broadcast + BroadcastStream wake-up behaviour, tokio coop budget, GossipSubscription being a plain wrapper of the BroadcastStream"]
RULE = ("quick: every valid/invalid sequence of length <= 4 in every grouping into phases x capacity 1,2,4 (close alternating), 300 random "
        "scenarios (<= 6 phases of <= 12 messages, capacity 1..8, five kinds of invalid bytes), 10 in-runtime floods (150-600 invalid then "
        "valid, capacity 1024, consumer as tokio task, closed channel, 3 s time-out); thorough: length <= 6, 3000 random, 40 floods. "
        "non-trivial = some retained valid message has an invalid or lagged item in front of it in its phase")

INV = "geswt"


def _compositions(seq):
    n = len(seq)
    if n == 0:
        yield [[]]
        return
    for cuts in itertools.product([0, 1], repeat=n - 1):
        ph, cur = [], [seq[0]]
        for i, c in enumerate(cuts):
            if c:
                ph.append(cur)
                cur = []
            cur.append(seq[i + 1])
        ph.append(cur)
        yield ph


def _label(phases):
    """turn 'v'/'i' symbols into tokens: v<id> with increasing ids, invalid kinds rotating"""
    out, vid, k = [], 0, 0
    for ph in phases:
        p = []
        for s in ph:
            if s == "v":
                vid += 1
                p.append("v%d" % vid)
            else:
                p.append(INV[k % len(INV)])
                k += 1
        out.append(p)
    return out


def gen(tier, rng):
    if tier == "quick":
        maxn, nrand, nflood = 4, 300, 10
    else:
        maxn, nrand, nflood = 6, 3000, 40
    k = 0
    for n in range(0, maxn + 1):
        for seq in itertools.product("vi", repeat=n):
            for phases in _compositions(list(seq)):
                for cap in (1, 2, 4):
                    k += 1
                    yield {"cap": cap, "close": k % 2, "mode": "m", "phases": _label(phases)}
    for _ in range(nrand):
        cap = rng.choice([1, 2, 4, 8])
        pv = rng.choice([0.2, 0.5, 0.8])
        phases = []
        for _ in range(rng.randint(1, 6)):
            m = rng.choice([0, 1, 2, 3, rng.randint(0, 12)])
            phases.append(["v" if rng.random() < pv else "i" for _ in range(m)])
        lab = _label(phases)
        # random invalid kinds
        lab = [[t if t[0] == "v" else rng.choice(INV) for t in ph] for ph in lab]
        yield {"cap": cap, "close": rng.randint(0, 1), "mode": "m", "phases": lab}
    for i in range(nflood):
        ninv = rng.choice([150, 300, 600])
        toks = [rng.choice(INV) for _ in range(ninv)] + ["v1"] + [rng.choice(INV) for _ in range(rng.randint(0, 3))] + ["v2"]
        if i % 3 == 2:
            toks = ["v7"] + toks  # and one in front
        cap = 1024 if i % 4 else 128     # capacity 128 overflows: lag
        yield {"cap": cap, "close": 1, "mode": "t", "phases": [toks]}


def harness_line(c):
    return "%d %d %s %s" % (c["cap"], c["close"], c["mode"], " | ".join(" ".join(p) for p in c["phases"]))


def _phs(c):
    phases = c["phases"]
    if c["mode"] == "t":
        phases = [[t for p in phases for t in p]]
    return "[" + ";".join("[" + ";".join(("Valid %s%%N" % t[1:]) if t[0] == "v" else "Invalid" for t in p) + "]" for p in phases) + "]"


def coq_model(c):
    return "model_line %d %s %s" % (c["cap"], _phs(c), "true" if c["close"] else "false")


def coq_oracle(c, impl):
    s = impl.strip()
    fin = stall = False
    if s.endswith(" END") or s == "END":
        fin, s = True, s[:-3].strip()
    elif s.endswith(" STALL") or s == "STALL":
        stall, s = True, s[:-5].strip()
    ys = []
    for part in s.split("|"):
        part = part.strip()
        ys.append([] if part in ("-", "") else [int(x) for x in part.split(",")])
    g = "[" + ";".join("[" + ";".join("%d%%N" % x for x in y) + "]" for y in ys) + "]"
    return "check %d %s %s %s %s %s" % (c["cap"], _phs(c), "true" if c["close"] else "false", g,
                                        "true" if fin else "false", "true" if stall else "false")


def nontrivial(c, impl):
    phases = c["phases"] if c["mode"] == "m" else [[t for p in c["phases"] for t in p]]
    for ms in phases:
        lag = len(ms) > c["cap"]
        kept = ms[-c["cap"]:]
        for j, t in enumerate(kept):
            if t[0] == "v" and (lag or any(x[0] != "v" for x in kept[:j])):
                return True
    return False


def shrink(c):
    ph = c["phases"]
    for i in range(len(ph)):
        if len(ph) > 1:
            yield dict(c, phases=ph[:i] + ph[i + 1:])
        for j in range(len(ph[i])):
            yield dict(c, phases=ph[:i] + [ph[i][:j] + ph[i][j + 1:]] + ph[i + 1:])
    if c["close"]:
        yield dict(c, close=0)
    if c["mode"] == "t":
        yield dict(c, mode="m")


def distribution(cases, impl):
    modes, caps, lag, total_inv, total_v, maxlen = {}, {}, 0, 0, 0, 0
    for c in cases:
        modes[c["mode"]] = modes.get(c["mode"], 0) + 1
        caps[str(c["cap"])] = caps.get(str(c["cap"]), 0) + 1
        for p in c["phases"]:
            maxlen = max(maxlen, len(p))
            if len(p) > c["cap"]:
                lag += 1
            total_v += sum(1 for t in p if t[0] == "v")
            total_inv += sum(1 for t in p if t[0] != "v")
    return {"modes": modes, "capacities": caps, "phases_with_lag": lag, "valid_messages": total_v, "invalid_messages": total_inv,
            "max_phase_len": maxlen}
