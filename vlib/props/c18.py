"""C18 — Hybrid timestamps strictly increase on every increment."""
import itertools

ID = "C18"
HARNESS_PKG = "h_c18"
COQ_IMPORTS = "From PV Require Import Model.Timestamp Oracle.C18."
TECHNIQUE = ("Coq proof (case analysis on clock vs. stored time; induction over the clock script for sequences and republications) "
             "+ differential correspondence of the Gallina model with the real HybridTimestamp::increment, "
             "UnsignedTransportInfo::increment_timestamp and NodeInfo::update_transports under a scripted mock clock")
LEVEL_TEXT = ("Proved in Coq for every input timestamp and every clock reading (earlier, equal, later), no bound: C18_increment_gt (strictly "
              "greater; guard only at the logical counter's u64::MAX boundary when the clock is not ahead), C18_increment_none_iff / "
              "C18_increment_overflow_boundary (exactly there the debug build panics and the release build wraps to a non-greater value), "
              "C18_increments_strictly_sorted / _pairwise_distinct (any clock script), C18_transport_info_newer / "
              "C18_republish_always_accepted (the self-signed successor record is accepted as newer by update_transports, any number of "
              "rounds), C18_oracle_sound. The model is tied to p2panda-core/src/timestamp.rs and p2panda-net/src/addrs.rs on every run: "
              "exhaustive small domain (t, l, now in 0..4, scripts up to length 3) plus random u64 values including the boundaries, run on "
              "the real code under mock_instant's clock and on the model; the oracle (strictly increasing chain) is evaluated on the "
              "implementation's outputs.")
LEVEL_NOTE = ("Trusted: Coq kernel + vm_compute; hand-written model; the clock is an input of the model (mock_instant thread-local clock on "
              "the Rust side, i.e. `duration.as_micros() as u64`); Ed25519 verification of the transport record is a boolean of the model "
              "(a record signed by the node itself verifies / by another key does not - exercised with real keys by the harness); the "
              "address-book actor and iroh's publish task around update_transports are not modelled. Correspondence is differential testing.")
ASSUMPTIONS = ["logical counter below u64::MAX whenever the clock is not ahead of the stored time (boundary stated and proved separately)",
               "the node's own record verifies under its own key (Ed25519 not verified; real keys used in the harness)",
               "harness built with overflow checks on (debug profile): the boundary shows as a panic"]
TRUSTED = ["modelled not verified: wall clock (explicit input), Ed25519 signature check (boolean), address book actor / iroh publish task"]
RULE = ("quick: all (t,l,now-script) over 0..4 with scripts of length 1..2 (+ length 3 over 0..2), 600 random u64 scripts of length <= 12 "
        "drawn around each other and around 0 / u64::MAX (so earlier/equal/later all occur), boundary cases (l = u64::MAX), 150 republish "
        "scripts and 200 update_transports cases with real keys; thorough: domain 0..5 length <= 3, 6000 random scripts of length <= 40, "
        "1500 republish, 1500 update cases. non-trivial = an inc/net script containing a clock reading earlier-or-equal to the current "
        "time AND one later (both branches), or an upd case with a current record")

U64 = (1 << 64) - 1


def _near(rng, x):
    r = rng.random()
    if r < 0.25:
        return x
    if r < 0.5:
        return max(0, min(U64, x + rng.choice([-1, 1]) * rng.randint(1, 3)))
    if r < 0.7:
        return max(0, min(U64, x + rng.choice([-1, 1]) * rng.randint(1, 1 << rng.randint(1, 62))))
    if r < 0.8:
        return rng.choice([0, 1, U64, U64 - 1, 1 << 63, (1 << 32), (1 << 32) - 1])
    return rng.randint(0, U64)


def _rand_script(rng, maxlen):
    t = _near(rng, rng.choice([0, 1000, 1 << 40, U64 - 5, rng.randint(0, U64)]))
    lr = rng.random()
    l = 0 if lr < 0.3 else (rng.randint(1, 5) if lr < 0.6 else (U64 - rng.randint(0, 3) if lr < 0.8 else rng.randint(0, U64)))
    n = rng.randint(1, maxlen)
    nows = []
    cur = t
    for _ in range(n):
        x = _near(rng, cur)
        nows.append(x)
        cur = max(cur, x)
    return t, l, nows


def gen(tier, rng):
    if tier == "quick":
        dom, maxl, nrand, rl, nnet, nupd = 5, 2, 600, 12, 150, 200
    else:
        dom, maxl, nrand, rl, nnet, nupd = 6, 3, 6000, 40, 1500, 1500
    # exhaustive small domain
    for n in range(1, maxl + 1):
        for t in range(dom):
            for l in range(dom):
                for nows in itertools.product(range(dom), repeat=n):
                    yield {"k": "inc", "t": t, "l": l, "nows": list(nows)}
    if tier == "quick":
        for t in range(3):
            for l in range(3):
                for nows in itertools.product(range(3), repeat=3):
                    yield {"k": "inc", "t": t, "l": l, "nows": list(nows)}
    # boundary: logical counter at / next to u64::MAX, clock earlier / equal / later
    for t in (0, 7, U64 - 1, U64):
        for l in (U64 - 2, U64 - 1, U64):
            for now in sorted({0, max(t - 1, 0), t, min(t + 1, U64), U64}):
                yield {"k": "inc", "t": t, "l": l, "nows": [now, now, t, now]}
    for _ in range(nrand):
        t, l, nows = _rand_script(rng, rl)
        yield {"k": "inc", "t": t, "l": l, "nows": nows}
    for _ in range(nnet):
        t, l, nows = _rand_script(rng, 6)
        yield {"k": "net", "t": t, "l": l, "rounds": [[_near(rng, n), n] for n in nows]}
    for t in range(3):
        for l in range(3):
            for t2 in range(3):
                for l2 in range(3):
                    for has in (0, 1):
                        yield {"k": "upd", "has": has, "t": t, "l": l, "t2": t2, "l2": l2, "sig": 1}
    for _ in range(nupd):
        t = rng.randint(0, U64)
        l = rng.choice([0, 1, rng.randint(0, U64)])
        yield {"k": "upd", "has": 1 if rng.random() < 0.85 else 0, "t": t, "l": l, "t2": _near(rng, t), "l2": _near(rng, l),
               "sig": 1 if rng.random() < 0.8 else 0}


def harness_line(c):
    if c["k"] == "inc":
        return "inc %d %d %s" % (c["t"], c["l"], " ".join(map(str, c["nows"])))
    if c["k"] == "net":
        return "net %d %d %s" % (c["t"], c["l"], " ".join("%d %d" % (a, b) for a, b in c["rounds"]))
    return "upd %d %d %d %d %d %d" % (c["has"], c["t"], c["l"], c["t2"], c["l2"], c["sig"])


def _h(t, l):
    return "(%d%%N, %d%%N)" % (t, l)


def _nl(xs):
    return "[" + ";".join("%d%%N" % x for x in xs) + "]"


def _rounds(rs):
    return "[" + ";".join("(%d%%N, %d%%N)" % (a, b) for a, b in rs) + "]"


def _cur(c):
    return ("Some " + _h(c["t"], c["l"])) if c["has"] else "None"


def coq_model(c):
    if c["k"] == "inc":
        return "model_line_seq %s %s" % (_h(c["t"], c["l"]), _nl(c["nows"]))
    if c["k"] == "net":
        return "model_line_net %s %s" % (_h(c["t"], c["l"]), _rounds(c["rounds"]))
    return "model_line_upd (%s) %s %s" % (_cur(c), _h(c["t2"], c["l2"]), "true" if c["sig"] else "false")


def _parse_ts(tok):
    a, b = tok.split("/")
    return int(a), int(b)


def coq_oracle(c, impl):
    toks = impl.split()
    if c["k"] in ("inc", "net"):
        pan = bool(toks) and toks[-1] == "PANIC"
        if pan:
            toks = toks[:-1]
        if c["k"] == "inc":
            outs = "[" + ";".join(_h(*_parse_ts(t)) for t in toks) + "]"
            return "check_seq %s %s %s %s" % (_h(c["t"], c["l"]), _nl(c["nows"]), outs, "true" if pan else "false")
        items = []
        for t in toks:
            ts, acc = t.split(":")
            items.append("(%s, %s)" % (_h(*_parse_ts(ts)), "true" if acc == "1" else "false"))
        return "check_net %s %s [%s] %s" % (_h(c["t"], c["l"]), _rounds(c["rounds"]), ";".join(items), "true" if pan else "false")
    res = {"ERR": 0, "OK0": 1, "OK1": 2}[toks[0]]
    st = "None" if toks[1] == "-" else "Some " + _h(*_parse_ts(toks[1]))
    return "check_upd (%s) %s %s %d%%N (%s)" % (_cur(c), _h(c["t2"], c["l2"]), "true" if c["sig"] else "false", res, st)


def _branches(c):
    """(saw clock <= current time, saw clock > current time) along the script (model-free: uses the max so far)."""
    cur = c["t"]
    back = fwd = False
    nows = c["nows"] if c["k"] == "inc" else [b for _, b in c["rounds"]]
    for n in nows:
        if n <= cur:
            back = True
        else:
            fwd = True
            cur = n
    return back, fwd


def nontrivial(c, impl):
    if c["k"] == "upd":
        return bool(c["has"])
    b, f = _branches(c)
    return b and f


def shrink(c):
    if c["k"] == "inc":
        for i in range(len(c["nows"])):
            if len(c["nows"]) > 1:
                yield dict(c, nows=c["nows"][:i] + c["nows"][i + 1:])
        for key in ("t", "l"):
            for v in (0, 1, 1000, c[key] // 2):
                if v < c[key]:
                    yield dict(c, **{key: v})
        for i, n in enumerate(c["nows"]):
            for v in (0, 1, 500, n // 2):
                if v < n:
                    yield dict(c, nows=c["nows"][:i] + [v] + c["nows"][i + 1:])
    elif c["k"] == "net":
        for i in range(len(c["rounds"])):
            if len(c["rounds"]) > 1:
                yield dict(c, rounds=c["rounds"][:i] + c["rounds"][i + 1:])
        for key in ("t", "l"):
            for v in (0, 1000, c[key] // 2):
                if v < c[key]:
                    yield dict(c, **{key: v})


def distribution(cases, impl):
    kinds, back, fwd, eq, pan, maxlen = {}, 0, 0, 0, 0, 0
    for i, c in enumerate(cases):
        kinds[c["k"]] = kinds.get(c["k"], 0) + 1
        if c["k"] == "upd":
            continue
        nows = c["nows"] if c["k"] == "inc" else [b for _, b in c["rounds"]]
        maxlen = max(maxlen, len(nows))
        cur = c["t"]
        for n in nows:
            if n < cur:
                back += 1
            elif n == cur:
                eq += 1
            else:
                fwd += 1
                cur = n
        if "PANIC" in (impl.get(i) or ""):
            pan += 1
    return {"kinds": kinds, "clock_readings_earlier": back, "clock_readings_equal": eq, "clock_readings_later": fwd,
            "boundary_panics_observed": pan, "max_script_len": maxlen}
