"""C14 — Every pipeline submission completes with its own result under every interleaving."""
import itertools

ID = "C14"
HARNESS_PKG = "h_node_tasks"
HARNESS_ARGS = ["c14"]
COQ_IMPORTS = "From PV Require Import Model.Tasks Oracle.C14."
TECHNIQUE = ("Coq proof over a labelled transition system of TaskTracker/Task/Pipeline::process (invariant over all reachable states, "
             "strictly decreasing measure) and over a second one for the result mutex held across steps by contending waiters + replay of "
             "model schedules on the real Pipeline::process future through cfg-gated schedule points + multi-thread contention runs")
LEVEL_TEXT = ("Proved in Coq for any number of submitters, any assignment of operation ids (including concurrent submissions of the same "
              "operation) and every schedule: C14_result_is_own (safety), C14_traces_bounded (every schedule has at most 10 steps per "
              "submitter), and for the repaired order of Task::ready (Notified created and enabled before the result check) "
              "C14_deadlock_free, C14_every_maximal_trace_returns, C14_can_always_complete; C14_asis_order_deadlocks keeps the lost wake-up of "
              "the order before the repair as a regression witness. For the result mutex of one task held across steps (a waiter acquires, "
              "looks, clones, releases) with any number of waiters and the writer: C14_contended_traces_bounded, C14_contended_deadlock_free, "
              "C14_contended_readers_return (blocking lock().await: every maximal schedule ends with every waiter having returned the stored "
              "result); C14_try_lock_check_strands_a_waiter refutes a try_lock() check in the model. The model is tied to "
              "p2panda/src/processor/{pipeline,tasks}.rs on every run: the REAL Pipeline::process future (detached Pipeline handle, the "
              "harness plays the pipeline thread on the same TaskTracker) is driven pick by pick (it parks at the entry of track, inside send, at "
              "the entry of ready and at the schedule points inside ready/mark_as_done, in whatever order the function makes these calls) "
              "through all pick sequences of bounded length for 1 submitter and for 2 submitters (same id / different ids) x 1 completer, "
              "plus random schedules for up to 4 submitters; where it parks first and the program counter reached after every pick are compared "
              "with the model (so the order track -> send -> ready of the real function is part of the observation); termination and own-result "
              "are checked on the implementation's run. Whole-run scenarios on the real code: stress (real Pipeline thread, multi-thread runtime, "
              "duplicates), paused (real Pipeline thread, hand-polled submitters pausing in every window between two steps of process), mt (k "
              "waiters of one task on k OS threads, slow Clone of the result = contention on the result mutex, task finished before / while they wait).")
LEVEL_NOTE = ("PARTIAL liveness: relative to the modelled tokio semantics (notify_waiters wakes exactly the Notified futures created/enabled "
              "before the call; a free lock is acquired at once, a pending lock() is granted at some point after the holder released, queue order "
              "not modelled) and to an unbounded FIFO channel into the pipeline (the real one "
              "holds 128 events and its send error is ignored); that the processing layers hand every event to mark_as_done is C13's "
              "subject. The two transition systems are separate: the big one takes the result mutex inside one step, the small one (one task, k "
              "waiters, the writer) holds it across steps; hand-off of the TRACKER lock to queued waiters is not explored (the harness never polls a "
              "submitter whose track would queue). "
              "Trusted: Coq kernel + vm_compute; hand-written model; harness/python glue; correspondence is differential testing; the mt/paused/stress "
              "runs are timing based (a miss is possible, a false alarm is not: they give up only after 5 s (mt) or 20 s (paused, stress) without any progress).")
ASSUMPTIONS = ["tokio Notify: notify_waiters() wakes exactly the Notified futures created (and enabled) before the call",
               "tokio Mutex/RwLock: mutual exclusion; an uncontended acquisition succeeds immediately; a pending lock() is granted after the holder's guard is dropped; guards release on drop",
               "the channel into the pipeline is FIFO and never full or closed; the pipeline hands every received event to mark_as_done exactly once"]
TRUSTED = ["modelled not verified: tokio Notify/Mutex/RwLock/mpsc semantics, the ingest/log-prune layers between recv and mark_as_done",
           "schedule points are cfg-gated awaits added to tasks.rs (hook commits) and a detached Pipeline constructor (capacity-1 channel whose only slot the harness holds, so that send parks); with the cfg off the code is unchanged"]
RULE = ("quick: every pick sequence of length <= 8 for one submitter + completer, every pick sequence of length 6 for two submitters (same id, "
        "different ids) + completer, 300 random pick sequences (1-4 submitters, length <= 40), each followed by a round-robin drain, all on the real "
        "Pipeline::process future; 4 stress runs of the real Pipeline (up to 64 submissions, duplicates, 4 worker threads); 4 paused runs (1-3 "
        "submitters, 15-40 ms pause at every schedule point); 16 mt runs (2-4 waiter threads, clone 30-50 ms, start offsets 0-60 ms, task finished "
        "before the waiters / by a concurrent writer thread); thorough: lengths 10 / 7, 1500 random, 12 stress, 12 paused, 64 mt. "
        "non-trivial = a schedule in which some submitter found no result at its check (token C, it had to wait) and every submitter returned, or an "
        "mt run with >= 2 waiters that all returned")
NONTRIVIAL_FLOOR = 50
REGISTERED = True
HARNESS_TIMEOUT = 1800


def gen(tier, rng):
    quick = tier == "quick"
    l1, l2, nrand, nstress, npaused, nmt = (8, 6, 300, 4, 4, 16) if quick else (10, 7, 1500, 12, 12, 64)
    for n in range(0, l1 + 1):
        for ps in itertools.product((0, 1), repeat=n):
            yield {"kind": "sched", "ids": [0], "picks": list(ps)}
    for ids in ([0, 0], [0, 1]):
        for ps in itertools.product((0, 1, 2), repeat=l2):
            yield {"kind": "sched", "ids": ids, "picks": list(ps)}
    for _ in range(nrand):
        n = rng.randint(1, 4)
        nid = rng.randint(1, n)
        ids = [rng.randrange(nid) for _ in range(n)]
        k = rng.randint(0, 40)
        # bias: sometimes prefer the completer, sometimes one submitter
        w = [rng.random() + 0.2 for _ in range(n + 1)]
        picks = rng.choices(range(n + 1), weights=w, k=k)
        yield {"kind": "sched", "ids": ids, "picks": picks}
    for i in range(nstress):
        subs = rng.choice([8, 16, 32, 64])
        yield {"kind": "stress", "subs": subs, "distinct": rng.randint(1, max(1, subs // 2)), "workers": rng.choice([2, 4])}
    for i in range(npaused):
        yield {"kind": "paused", "subs": 1 + i % 3, "pause_ms": rng.choice([15, 25, 40])}
    # contention on the result mutex: k waiters of one task on k OS threads, slow Clone of the result.
    # start offsets are smaller than a clone, so that a waiter's check falls while another one holds the mutex
    for i in range(nmt):
        k = 2 + i % 3
        clone_ms = rng.choice([30, 40, 50])
        mode = i % 2
        offsets = [0] + [rng.choice([3, 6, 10, 15, 20]) * j for j in range(1, k)]
        rng.shuffle(offsets)
        delay = rng.choice([0, 5, 20, 45]) if mode == 1 else 0
        yield {"kind": "mt", "mode": mode, "clone_ms": clone_ms, "writer_delay_ms": delay, "offsets_ms": offsets}


def harness_line(case):
    if case["kind"] == "stress":
        return "stress %d %d %d" % (case["subs"], case["distinct"], case["workers"])
    if case["kind"] == "paused":
        return "paused %d %d" % (case["subs"], case["pause_ms"])
    if case["kind"] == "mt":
        return "mt %d %d %d | %s" % (case["mode"], case["clone_ms"], case["writer_delay_ms"], " ".join(map(str, case["offsets_ms"])))
    return "sched %s | %s" % (" ".join(map(str, case["ids"])), " ".join(map(str, case["picks"])))


def _nl(xs):
    return "[" + ";".join(str(x) for x in xs) + "]"


_TAG = {"paused": "PAUSED", "mt": "MT"}


def _expected(case):
    return len(case["offsets_ms"]) if case["kind"] == "mt" else case["subs"]


def coq_model(case):
    if case["kind"] == "stress":
        return "stress_line %d%%N" % case["subs"]
    if case["kind"] in _TAG:
        return 'count_line "%s" %d%%N' % (_TAG[case["kind"]], _expected(case))
    return "model_line %s %s" % (_nl(case["ids"]), _nl(case["picks"]))


def _results(case, impl):
    """Per submitter: the value it returned (None = never), from the D<r> tokens of the run."""
    n = len(case["ids"])
    parts = [p.strip() for p in impl.split("/")]
    res = [None] * n
    if len(parts) != 4:
        return res
    parts = parts[1:]   # parts[0]: where the submitters park before the first pick
    toks = parts[0].split()
    for a, t in zip(case["picks"], toks):
        if a < n and t.startswith("D"):
            res[a] = int(t[1:])
    dr = parts[1].split()
    for k, t in enumerate(dr):
        a = k % (n + 1)
        if a < n and t.startswith("D"):
            res[a] = int(t[1:])
    return res


def coq_oracle(case, impl):
    if case["kind"] == "stress":
        f = dict(x.split("=") for x in impl.split()[1:])
        return "check_stress %d%%N %d%%N %d%%N" % (case["subs"], int(f["returned"]), int(f["own"]))
    if case["kind"] in _TAG:
        f = dict(x.split("=") for x in impl.split()[1:])
        return "check_count %d%%N %d%%N %d%%N" % (_expected(case), int(f["returned"]), int(f["own"]))
    res = _results(case, impl)   # a submitter that never returned stays None and fails the oracle
    o = "[" + ";".join("None" if r is None else "Some %d" % r for r in res) + "]"
    return "check %s %s" % (_nl(case["ids"]), o)


def nontrivial(case, impl):
    if case["kind"] == "mt":   # at least two waiters, all of them back
        k = len(case["offsets_ms"])
        return k >= 2 and impl == "MT returned=%d own=%d" % (k, k)
    if case["kind"] != "sched":
        return False
    return " C" in (" " + impl) and impl.rstrip().endswith("OK") and len(case["ids"]) >= 1


def shrink(case):
    if case["kind"] == "mt":   # every failing candidate costs the 5 s give-up time: only a few
        offs = case["offsets_ms"]
        if len(offs) > 2:
            for d in range(min(3, len(offs))):
                yield dict(case, offsets_ms=offs[:d] + offs[d + 1:])
        return
    if case["kind"] == "paused":
        if case["subs"] > 1:
            yield dict(case, subs=case["subs"] - 1)
        return
    if case["kind"] != "sched":
        if case["subs"] > 1:
            yield {"kind": "stress", "subs": case["subs"] // 2, "distinct": max(1, case["distinct"] // 2), "workers": case["workers"]}
        return
    ps = case["picks"]
    for i in range(len(ps)):
        yield {"kind": "sched", "ids": case["ids"], "picks": ps[:i] + ps[i + 1:]}
    n = len(case["ids"])
    if n > 1:
        for d in range(n):
            ids = case["ids"][:d] + case["ids"][d + 1:]
            picks = [p - 1 if p > d else p for p in ps if p != d]
            yield {"kind": "sched", "ids": ids, "picks": picks}


def distribution(cases, impl):
    sched = [c for c in cases if c["kind"] == "sched"]
    waited = sum(1 for i, c in enumerate(cases) if c["kind"] == "sched" and " C" in (" " + impl.get(i, "")))
    woken = sum(1 for i, c in enumerate(cases) if c["kind"] == "sched" and " W" in (" " + impl.get(i, "")))
    dead = sum(1 for i, c in enumerate(cases) if c["kind"] == "sched" and impl.get(i, "").rstrip().endswith("DEADLOCK"))
    nsub = {}
    for c in sched:
        nsub[len(c["ids"])] = nsub.get(len(c["ids"]), 0) + 1
    kinds = {}
    for c in cases:
        kinds[c["kind"]] = kinds.get(c["kind"], 0) + 1
    mtc = [c for c in cases if c["kind"] == "mt"]
    return {"schedules": len(sched), "stress_runs": kinds.get("stress", 0), "paused_runs": kinds.get("paused", 0),
            "mt_runs": len(mtc), "mt_waiters": sum(len(c["offsets_ms"]) for c in mtc),
            "mt_completed_before_waiters": sum(1 for c in mtc if c["mode"] == 0),
            "schedules_with_a_waiting_submitter": waited, "schedules_with_a_wake_up": woken,
            "deadlocks_on_impl": dead, "submitters": {str(k): v for k, v in sorted(nsub.items())},
            "same_id_pairs": sum(1 for c in sched if len(c["ids"]) != len(set(c["ids"]))),
            "max_picks": max(len(c["picks"]) for c in sched) if sched else 0}
