"""C14 — Every pipeline submission completes with its own result under every interleaving."""
import itertools

ID = "C14"
HARNESS_PKG = "h_node_tasks"
HARNESS_ARGS = ["c14"]
COQ_IMPORTS = "From PV Require Import Model.Tasks Oracle.C14."
TECHNIQUE = ("Coq proof over a labelled transition system of TaskTracker/Task/Pipeline::process (invariant over all reachable states, "
             "strictly decreasing measure) + replay of model schedules on the real code through cfg-gated schedule points")
LEVEL_TEXT = ("Proved in Coq for any number of submitters, any assignment of operation ids (including concurrent submissions of the same "
              "operation) and every schedule: C14_result_is_own (safety), C14_traces_bounded (every schedule has at most 10 steps per "
              "submitter), and for the repaired order of Task::ready (Notified created and enabled before the result check) "
              "C14_deadlock_free, C14_every_maximal_trace_returns, C14_can_always_complete; C14_asis_order_deadlocks keeps the lost wake-up of "
              "the order before the repair as a regression witness. The model is tied to p2panda/src/processor/tasks.rs on every run: the "
              "real TaskTracker/Task are driven pick by pick (hand-polled futures that stop at the schedule points of the hook commits) "
              "through all pick sequences of bounded length for 1 submitter and for 2 submitters (same id / different ids) x 1 completer, "
              "plus random schedules for up to 4 submitters, and the program counter reached after every pick is compared with the model; "
              "termination and own-result are checked on the implementation's run. A stress run drives the real Pipeline::process "
              "(own thread, SQLite in memory) from a multi-thread runtime with concurrent duplicate submissions.")
LEVEL_NOTE = ("PARTIAL liveness: relative to the modelled tokio semantics (notify_waiters wakes exactly the Notified futures created/enabled "
              "before the call; uncontended locks are acquired at once) and to an unbounded FIFO channel into the pipeline (the real one "
              "holds 128 events and its send error is ignored); that the processing layers hand every event to mark_as_done is C13's "
              "subject. Lock hand-off to queued waiters is not explored (the harness never polls a submitter whose track would queue). "
              "Trusted: Coq kernel + vm_compute; hand-written model; harness/python glue; correspondence is differential testing.")
ASSUMPTIONS = ["tokio Notify: notify_waiters() wakes exactly the Notified futures created (and enabled) before the call",
               "tokio Mutex/RwLock: an uncontended acquisition succeeds immediately; guards release on drop",
               "the channel into the pipeline is FIFO and never full or closed; the pipeline hands every received event to mark_as_done exactly once"]
TRUSTED = ["modelled not verified: tokio Notify/Mutex/RwLock/mpsc semantics, the ingest/log-prune layers between recv and mark_as_done",
           "schedule points are cfg-gated awaits added to tasks.rs (hook commits); with the cfg off the code is unchanged"]
RULE = ("quick: every pick sequence of length <= 8 for one submitter + completer, every pick sequence of length 6 for two submitters (same id, "
        "different ids) + completer, 300 random pick sequences (1-4 submitters, length <= 40), each followed by a round-robin drain; 4 stress "
        "runs of the real Pipeline (up to 64 submissions, duplicates, 4 worker threads); thorough: lengths 10 / 7, 1500 random, 12 stress runs. "
        "non-trivial = a schedule in which some submitter found no result at its check (token C, it had to wait) and every submitter returned")
NONTRIVIAL_FLOOR = 50
REGISTERED = True
HARNESS_TIMEOUT = 1800


def gen(tier, rng):
    quick = tier == "quick"
    l1, l2, nrand, nstress = (8, 6, 300, 4) if quick else (10, 7, 1500, 12)
    for n in range(0, l1 + 1):
        for ps in itertools.product((0, 1), repeat=n):
            yield {"kind": "sched", "ids": [0], "picks": list(ps)}
    for ids in ([0, 0], [0, 1]):
        for ps in itertools.product((0, 1, 2), repeat=l2):
            yield {"kind": "sched", "ids": ids, "picks": list(ps)}
    for _ in range(nrand):
        n = rng.randint(1, 4)
        nid = rng.randint(1, n)
        ids = [rng.randrange(nid) for _ in range(n)]
        k = rng.randint(0, 40)
        # bias: sometimes prefer the completer, sometimes one submitter
        w = [rng.random() + 0.2 for _ in range(n + 1)]
        picks = rng.choices(range(n + 1), weights=w, k=k)
        yield {"kind": "sched", "ids": ids, "picks": picks}
    for i in range(nstress):
        subs = rng.choice([8, 16, 32, 64])
        yield {"kind": "stress", "subs": subs, "distinct": rng.randint(1, max(1, subs // 2)), "workers": rng.choice([2, 4])}


def harness_line(case):
    if case["kind"] == "stress":
        return "stress %d %d %d" % (case["subs"], case["distinct"], case["workers"])
    return "sched %s | %s" % (" ".join(map(str, case["ids"])), " ".join(map(str, case["picks"])))


def _nl(xs):
    return "[" + ";".join(str(x) for x in xs) + "]"


def coq_model(case):
    if case["kind"] == "stress":
        return "stress_line %d%%N" % case["subs"]
    return "model_line %s %s" % (_nl(case["ids"]), _nl(case["picks"]))


def _results(case, impl):
    """Per submitter: the value it returned (None = never), from the D<r> tokens of the run."""
    n = len(case["ids"])
    parts = [p.strip() for p in impl.split("/")]
    res = [None] * n
    if len(parts) != 3:
        return res
    toks = parts[0].split()
    for a, t in zip(case["picks"], toks):
        if a < n and t.startswith("D"):
            res[a] = int(t[1:])
    dr = parts[1].split()
    for k, t in enumerate(dr):
        a = k % (n + 1)
        if a < n and t.startswith("D"):
            res[a] = int(t[1:])
    return res


def coq_oracle(case, impl):
    if case["kind"] == "stress":
        f = dict(x.split("=") for x in impl.split()[1:])
        return "check_stress %d%%N %d%%N %d%%N" % (case["subs"], int(f["returned"]), int(f["own"]))
    res = _results(case, impl)   # a submitter that never returned stays None and fails the oracle
    o = "[" + ";".join("None" if r is None else "Some %d" % r for r in res) + "]"
    return "check %s %s" % (_nl(case["ids"]), o)


def nontrivial(case, impl):
    if case["kind"] != "sched":
        return False
    return " C" in (" " + impl) and impl.rstrip().endswith("OK") and len(case["ids"]) >= 1


def shrink(case):
    if case["kind"] != "sched":
        if case["subs"] > 1:
            yield {"kind": "stress", "subs": case["subs"] // 2, "distinct": max(1, case["distinct"] // 2), "workers": case["workers"]}
        return
    ps = case["picks"]
    for i in range(len(ps)):
        yield {"kind": "sched", "ids": case["ids"], "picks": ps[:i] + ps[i + 1:]}
    n = len(case["ids"])
    if n > 1:
        for d in range(n):
            ids = case["ids"][:d] + case["ids"][d + 1:]
            picks = [p - 1 if p > d else p for p in ps if p != d]
            yield {"kind": "sched", "ids": ids, "picks": picks}


def distribution(cases, impl):
    sched = [c for c in cases if c["kind"] == "sched"]
    waited = sum(1 for i, c in enumerate(cases) if c["kind"] == "sched" and " C" in (" " + impl.get(i, "")))
    woken = sum(1 for i, c in enumerate(cases) if c["kind"] == "sched" and " W" in (" " + impl.get(i, "")))
    dead = sum(1 for i, c in enumerate(cases) if c["kind"] == "sched" and impl.get(i, "").rstrip().endswith("DEADLOCK"))
    nsub = {}
    for c in sched:
        nsub[len(c["ids"])] = nsub.get(len(c["ids"]), 0) + 1
    return {"schedules": len(sched), "stress_runs": len(cases) - len(sched),
            "schedules_with_a_waiting_submitter": waited, "schedules_with_a_wake_up": woken,
            "deadlocks_on_impl": dead, "submitters": {str(k): v for k, v in sorted(nsub.items())},
            "same_id_pairs": sum(1 for c in sched if len(c["ids"]) != len(set(c["ids"]))),
            "max_picks": max(len(c["picks"]) for c in sched) if sched else 0}
