"""C05 — Pruned log prefixes never come back."""
import itertools

from . import ingestlib as L

ID = "C05"
HARNESS_PKG = "h_ingest"
HARNESS_ARGS = ["c05"]
COQ_IMPORTS = "From PV Require Import Model.Ingest Lib.IngestObs Oracle.C05."
COQ_SHARD = 150
TECHNIQUE = ("Coq proof (low-water-mark invariant preserved by every later delivery, by induction over the delivery list) + differential "
             "correspondence of the Gallina model with the real ingest_operation + LogPrune on an in-memory SqliteStore")
LEVEL_TEXT = ("Theorem C05_no_resurrection is proved in Coq for every well-formed history (non-equivocating authors) and every "
              "continuation after a prune point was ingested: any later deliveries in any order, older prune points, duplicates, forged "
              "copies; no size bound. C05_old_prune_point_rejected is the repaired check of validate_prunable_backlink; "
              "C05_unrepaired_model_refuted keeps the defect found on the unchanged code (prune point 7, then older prune point 3 stored) "
              "as a machine-checked witness against the old function. The model is tied to p2panda-core/src/prune.rs, "
              "p2panda-stream/src/ingest/operation.rs and log_prune/processor.rs on every run (all delivery orders of logs with 2-4 prune "
              "points, random histories with late re-delivery of older prune points), the oracle is evaluated on the implementation's "
              "get_log_entries dumps after every delivery.")
LEVEL_NOTE = ("Trusted: Coq kernel + vm_compute; hand-written model; SQLite semantics; validate_operation abstract; pipeline composition "
              "done by the harness as in pipeline.rs (the real composition is C04's harness). Differential testing bounded by generators.")
ASSUMPTIONS = ["wf_history (hash field = header hash for validated operations, collision-free header hash, non-equivocation)",
               "single writer: ingest and log-prune of one event are not interleaved with another event's (pipeline processes events one by one)"]
TRUSTED = ["modelled not verified: SQLite DELETE ... seq_num < ?, sqlx transactions"]
RULE = ("quick: all delivery orders of one 4-entry log for the 11 flag patterns with >= 2 prune points, of six 5-entry logs with 2-4 prune "
        "points, 300 random prune-heavy histories with late re-delivery; the finding's witness first; thorough: all orders of all 26 "
        "5-entry patterns with >= 2 prune points, two 6-entry patterns, 2000 random. non-trivial = a prune point was ingested and a later "
        "delivery of an operation of the same log with a smaller sequence number was attempted")
NONTRIVIAL_FLOOR = 50


def gen(tier, rng):
    if tier == "quick":
        for flags in itertools.product([0, 1], repeat=4):
            if sum(flags) >= 2:
                yield from L.single_log_permutations(list(flags))
        for flags in ([0, 1, 0, 1, 0], [1, 0, 1, 0, 1], [0, 0, 1, 1, 1], [0, 1, 1, 0, 0], [1, 1, 1, 1, 0], [0, 1, 0, 0, 1]):
            yield from L.single_log_permutations(flags)
        for _ in range(300):
            yield L.random_history(rng, prune_p=0.5, late_p=0.8)
    else:
        for flags in itertools.product([0, 1], repeat=5):
            if sum(flags) >= 2:
                yield from L.single_log_permutations(list(flags))
        for flags in ([0, 1, 0, 1, 0, 1], [1, 0, 0, 1, 1, 0]):
            yield from L.single_log_permutations(flags)
        for _ in range(2000):
            yield L.random_history(rng, big=True, prune_p=0.5, late_p=0.8)


harness_line = L.harness_line


def coq_model(case):
    return "model_line %s %s %s %s" % (L.N(case["na"]), L.N(case["nl"]), L.coq_ops(case), L.coq_nats(case["ds"]))


def coq_oracle(case, impl):
    _bits, steps = L.parse_impl(impl)
    return "check %s %s %s" % (L.coq_ops(case), L.coq_nats(case["ds"]), L.coq_obs(steps))


def nontrivial(case, impl):
    r = L.resolve(case["ops"])
    steps = impl.split(" ; ")[1:]
    marks = []
    for d, st in zip(case["ds"], steps):
        o = r[d]
        if any(m[0] == o["a"] and m[1] == o["l"] and o["seq"] < m[2] for m in marks):
            return True
        if o["p"] and st.split("/")[0] in ("I", "A"):
            marks.append((o["a"], o["l"], o["seq"]))
    return False


shrink = L.shrink
distribution = L.distribution
REGISTERED = True
