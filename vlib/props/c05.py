"""C05 — Pruned log prefixes never come back."""
import itertools

from . import ingestlib as L

ID = "C05"
HARNESS_PKG = "h_ingest"
HARNESS_ARGS = ["c05"]
COQ_IMPORTS = "From PV Require Import Model.Ingest Lib.IngestObs Oracle.C05."
COQ_SHARD = 150
TECHNIQUE = ("Coq proof (low-water-mark invariant preserved by every later delivery, by induction over the delivery list) + differential "
             "correspondence of the Gallina model with the real ingest_operation + LogPrune on an in-memory SqliteStore; overlapping "
             "ingest calls: Coq proof of serialisability for all interleavings of the calls' await points + hand-polled / join_all / "
             "spawned ingest_operation futures on in-memory and file-backed stores compared with the model's sequential outcomes")
LEVEL_TEXT = ("Theorem C05_no_resurrection is proved in Coq for every well-formed history (non-equivocating authors) and every "
              "continuation after a prune point was ingested: any later deliveries in any order, older prune points, duplicates, forged "
              "copies; no size bound. C05_old_prune_point_rejected is the repaired check of validate_prunable_backlink; "
              "C05_unrepaired_model_refuted keeps the defect found on the unchanged code (prune point 7, then older prune point 3 stored) "
              "as a machine-checked witness against the old function. The model is tied to p2panda-core/src/prune.rs, "
              "p2panda-stream/src/ingest/operation.rs and log_prune/processor.rs on every run (all delivery orders of logs with 2-4 prune "
              "points, random histories with late re-delivery of older prune points), the oracle is evaluated on the implementation's "
              "get_log_entries dumps after every delivery. Overlapping ingest_operation calls on one store: "
              "C05_concurrent_ingest_serialisable / _prefix_serialisable (every interleaving of the calls' await points, permit acquired "
              "before the tip is read, equals a sequential order of the calls, rows in commit order), C05_no_resurrection_concurrent, "
              "C05_concurrent_commit_order_increasing are proved; C05_concurrent_stale_tip_refuted is a witness against the variant that "
              "reads the tip before begin(). Tied to the code by concurrent cases (hand-polled futures in scenario order, join_all and "
              "spawned tasks on a multi-thread runtime; in-memory and file-backed store): the observed results, rowid (commit) order and "
              "logs must be one of the model's sequential outcomes.")
LEVEL_NOTE = ("Trusted: Coq kernel + vm_compute; hand-written model; SQLite semantics; validate_operation abstract; pipeline composition "
              "done by the harness as in pipeline.rs (the real composition is C04's harness). Differential testing bounded by generators.")
ASSUMPTIONS = ["wf_history (hash field = header hash for validated operations, collision-free header hash, non-equivocation)",
               "ingest calls may overlap (modelled at their await points); the log-prune step of an event is not interleaved with another "
               "event's transaction (pipeline processes events one by one)",
               "transaction permit: binary semaphore, released only after commit/rollback finished; uncommitted writes invisible to other calls"]
TRUSTED = ["modelled not verified: SQLite DELETE ... seq_num < ?, sqlx transactions"]
RULE = ("concurrent cases first (prune points 5/3 overlapping in both orders x empty/prefilled store x mem/file x hand schedules, "
        "join_all, spawn; duplicates; normal operations; two logs; random batches; non-trivial = a prune point overlaps with a call of "
        "the same log at or below it). quick: all delivery orders of one 4-entry log for the 11 flag patterns with >= 2 prune points, of six 5-entry logs with 2-4 prune "
        "points, 300 random prune-heavy histories with late re-delivery; the finding's witness first; thorough: all orders of all 26 "
        "5-entry patterns with >= 2 prune points, two 6-entry patterns, 2000 random. non-trivial = a prune point was ingested and a later "
        "delivery of an operation of the same log with a smaller sequence number was attempted")
NONTRIVIAL_FLOOR = 50


# ---------------------------------------------------------------- concurrent cases
# A concurrent case is a sequential case plus
#   "cb"    the batch: indices into ops, one overlapping ingest_operation call each
#   "sched" poll order for mode "hand" (indices into cb; afterwards round-robin)
#   "mode"  "hand" | "join" | "spawn"       "db"  "mem" | "file"

def conc_case(flags, pre, cb, sched, mode="hand", db="mem", logs=1):
    ops = []
    for l in range(logs):
        L.chain(ops, 0, l, flags)
    return {"na": 1, "nl": logs, "ops": ops, "ds": list(pre), "cb": list(cb), "sched": list(sched), "mode": mode, "db": db}


def hand_schedules(k):
    """Interleavings of k calls: who is polled first, alternation, one call far ahead of the others."""
    rr = list(range(k)) * 14
    out = [rr, list(reversed(range(k))) * 14]
    for i in range(k):
        others = [j for j in range(k) if j != i]
        out.append([i] * 30 + others * 14)                 # call i runs to completion first
        out.append([i] + others + [i] * 30)                # i reads first, the others start, i finishes
        out.append([i, i] + others * 2 + [i] * 30)
        out.append(others + [i] * 3 + others * 3 + [i] * 30)
    return out


def conc_fixed(tier):
    flags = [0, 0, 0, 1, 0, 1]
    # prune points 5 and 3 concurrently, both orders, on an empty store and after a prefix
    for pre in ([], [0], [0, 1, 2]):
        for cb in ([5, 3], [3, 5]):
            for db in ("mem", "file"):
                scheds = hand_schedules(2)
                if tier == "quick":
                    scheds = scheds[:6] if (pre == [] or db == "mem") else scheds[:2]
                for sch in scheds:
                    yield conc_case(flags, pre, cb, sch, "hand", db)
                yield conc_case(flags, pre, cb, [], "join", db)
            yield conc_case(flags, pre, cb, [], "spawn", "file")
    # duplicates concurrently
    for cb in ([5, 5], [3, 3, 3], [0, 0]):
        for db in ("mem", "file"):
            for sch in hand_schedules(len(cb))[:3]:
                yield conc_case(flags, [], cb, sch, "hand", db)
            yield conc_case(flags, [], cb, [], "join", db)
    # normal operations concurrently, with and without the prune points
    for pre, cb in (([0], [1, 2]), ([0], [2, 1]), ([0, 1], [2, 3, 4]), ([0, 1, 2], [5, 3, 4]), ([0, 1, 2], [4, 3, 5]),
                    ([0, 1, 2, 3], [1, 2, 5]), ([0, 1, 2, 3], [5, 4, 0]), ([3], [5, 4, 3])):
        for db in ("mem", "file"):
            for sch in hand_schedules(len(cb))[: (3 if tier == "quick" else 12)]:
                yield conc_case(flags, pre, cb, sch, "hand", db)
        yield conc_case(flags, pre, cb, [], "join", "mem")
        yield conc_case(flags, pre, cb, [], "spawn", "file")
    # two logs of one author
    yield conc_case([0, 1, 0, 1], [0], [3, 1, 7, 5], list(range(4)) * 10, "hand", "file", logs=2)
    yield conc_case([0, 1, 0, 1], [4], [1, 3, 5, 7], [3, 2, 1, 0] * 10, "hand", "mem", logs=2)


def conc_random(rng):
    n = rng.randint(3, 6)
    flags = [1 if rng.random() < 0.5 else 0 for _ in range(n)]
    logs = 1 if rng.random() < 0.75 else 2
    total = n * logs
    pre = [i for i in range(total) if rng.random() < 0.35]
    if rng.random() < 0.3:
        rng.shuffle(pre)
    k = rng.randint(2, 4)
    cb = [rng.randrange(total) for _ in range(k)]
    if rng.random() < 0.6:
        # make sure two prune points (or a prune point and something below it) of one log overlap
        ps = [i for i in range(n) if flags[i]]
        if ps:
            hi = max(ps)
            cb[0] = hi
            cb[1] = rng.randrange(hi + 1)
            if rng.random() < 0.5:
                cb[0], cb[1] = cb[1], cb[0]
    mode = rng.choice(["hand", "hand", "hand", "join", "spawn"])
    db = rng.choice(["mem", "file"])
    sched = [rng.randrange(k) for _ in range(rng.randint(0, 24))]
    if rng.random() < 0.3:
        sched = [rng.randrange(k)] * rng.randint(1, 12) + sched
    return conc_case(flags, pre, cb, sched, mode, db, logs=logs)


def is_conc(case):
    return "cb" in case


def gen(tier, rng):
    if tier == "quick":
        yield from conc_fixed("quick")
        for _ in range(40):
            yield conc_random(rng)
        for flags in itertools.product([0, 1], repeat=4):
            if sum(flags) >= 2:
                yield from L.single_log_permutations(list(flags))
        for flags in ([0, 1, 0, 1, 0], [1, 0, 1, 0, 1], [0, 0, 1, 1, 1], [0, 1, 1, 0, 0], [1, 1, 1, 1, 0], [0, 1, 0, 0, 1]):
            yield from L.single_log_permutations(flags)
        for _ in range(300):
            yield L.random_history(rng, prune_p=0.5, late_p=0.8)
    else:
        yield from conc_fixed("thorough")
        for _ in range(600):
            yield conc_random(rng)
        for flags in itertools.product([0, 1], repeat=5):
            if sum(flags) >= 2:
                yield from L.single_log_permutations(list(flags))
        for flags in ([0, 1, 0, 1, 0, 1], [1, 0, 0, 1, 1, 0]):
            yield from L.single_log_permutations(flags)
        for _ in range(2000):
            yield L.random_history(rng, big=True, prune_p=0.5, late_p=0.8)


def harness_line(case):
    if not is_conc(case):
        return L.harness_line(case)
    base = L.harness_line(case)          # "<na> <nl>|ops|ds"
    return "C %s %s %s|%s|%s" % (case["db"], case["mode"], base, " ".join(map(str, case["cb"])), " ".join(map(str, case["sched"])))


def coq_model(case):
    if is_conc(case):
        return "model_line_conc %s %s %s %s %s" % (L.N(case["na"]), L.N(case["nl"]), L.coq_ops(case), L.coq_nats(case["ds"]),
                                                   L.coq_nats(case["cb"]))
    return "model_line %s %s %s %s" % (L.N(case["na"]), L.N(case["nl"]), L.coq_ops(case), L.coq_nats(case["ds"]))


def split_conc(impl):
    """-> (sequential part, 'B=../ins=../before/after', info)"""
    parts = impl.split(" ;; ")
    if len(parts) < 2:
        raise ValueError("no concurrent part")
    return parts[0], parts[1], (parts[2] if len(parts) > 2 else "")


def parse_conc(case, conc):
    f = conc.split("/")
    if len(f) != 4 or not f[0].startswith("B=") or not f[1].startswith("ins="):
        raise ValueError("concurrent part malformed")
    cres = [x for x in f[0][2:].split(",") if x]
    r = L.resolve(case["ops"])
    ins = []
    for t in [x for x in f[1][4:].split(",") if x]:
        j = int(t) - 1
        if j < 0 or j >= len(r):
            raise ValueError("unknown row inserted")
        o = r[j]
        ins.append({"a": o["a"], "l": o["l"], "seq": o["seq"], "id": o["id"], "hh": o["hh"], "bl": o["bl"], "p": bool(o["p"]),
                    "body": bool(o["body"])})
    _b, st = L.parse_impl("V= ; X/%s ; X/%s" % (f[2], f[3]))
    return cres, ins, st[0][1], st[1][1]


def rows(rs):
    return "[" + ";".join(L.coq_row(r) for r in rs) + "]"


def coq_oracle(case, impl):
    if is_conc(case):
        seqp, conc, _info = split_conc(impl)
        _bits, steps = L.parse_impl(seqp)
        cres, ins, before, after = parse_conc(case, conc)
        return "check_conc %s %s %s %s [%s] %s %s %s" % (L.coq_ops(case), L.coq_nats(case["ds"]), L.coq_obs(steps), L.coq_nats(case["cb"]),
                                                        ";".join(L.coq_res(x) for x in cres), rows(ins), rows(before), rows(after))
    _bits, steps = L.parse_impl(impl)
    return "check %s %s %s" % (L.coq_ops(case), L.coq_nats(case["ds"]), L.coq_obs(steps))


def agree(case, impl, model):
    """Sequential cases: same line.  Concurrent cases: same sequential part, and the batch's outcome
    (results, commit order of the inserted rows, logs before/after the prune steps) is the outcome of
    one of the sequential orders of the batch computed by the model."""
    if not is_conc(case):
        return impl == model
    try:
        seqp, conc, _info = split_conc(impl)
    except ValueError:
        return False
    mparts = model.split(" ;; ")
    if len(mparts) != 2:
        return False
    return seqp == mparts[0] and conc in mparts[1].split(" || ")


def _seq_nontrivial(ops, ds, steps):
    r = L.resolve(ops)
    marks = []
    for d, st in zip(ds, steps):
        o = r[d]
        if any(m[0] == o["a"] and m[1] == o["l"] and o["seq"] < m[2] for m in marks):
            return True, marks
        if o["p"] and st.split("/")[0] in ("I", "A"):
            marks.append((o["a"], o["l"], o["seq"]))
    return False, marks


def nontrivial(case, impl):
    if is_conc(case):
        # a prune point overlaps with a call for the same log at or below it (or a delivered prune
        # point lies above a call of the batch)
        try:
            seqp, _conc, _info = split_conc(impl)
        except ValueError:
            return False
        r = L.resolve(case["ops"])
        _nt, marks = _seq_nontrivial(case["ops"], case["ds"], seqp.split(" ; ")[1:])
        b = [r[i] for i in case["cb"]]
        for x, o in enumerate(b):
            if any(m[0] == o["a"] and m[1] == o["l"] and o["seq"] < m[2] for m in marks):
                return True
            for y, q in enumerate(b):
                if x != y and q["p"] and q["valid"] and (q["a"], q["l"]) == (o["a"], o["l"]) and o["seq"] <= q["seq"]:
                    return True
        return False
    return _seq_nontrivial(case["ops"], case["ds"], impl.split(" ; ")[1:])[0]


def shrink(case):
    if not is_conc(case):
        yield from L.shrink(case)
        return
    ds, cb, sched = case["ds"], case["cb"], case["sched"]
    for i in range(len(ds)):
        yield dict(case, ds=ds[:i] + ds[i + 1:])
    if len(cb) > 2:
        for i in range(len(cb)):
            yield dict(case, cb=cb[:i] + cb[i + 1:], sched=[x - (1 if x > i else 0) for x in sched if x != i])
    # the label list is kept: which interleaving is reached depends on it (and a shorter one makes the
    # failure timing-dependent), a replay should poll exactly as the failing run did


def distribution(cases, impl):
    seq_cases, seq_impl = [], {}
    conc = {"cases": 0, "by_mode_db": {}, "batch_results": {}, "hangs": 0}
    for i, c in enumerate(cases):
        if is_conc(c):
            conc["cases"] += 1
            k = "%s/%s" % (c["mode"], c["db"])
            conc["by_mode_db"][k] = conc["by_mode_db"].get(k, 0) + 1
            line = impl.get(i)
            if line and " ;; " in line:
                b = line.split(" ;; ")[1].split("/")[0]
                for x in b[2:].split(","):
                    conc["batch_results"][x] = conc["batch_results"].get(x, 0) + 1
                    if x == "HANG":
                        conc["hangs"] += 1
        else:
            if i in impl:
                seq_impl[len(seq_cases)] = impl[i]
            seq_cases.append(c)
    d = L.distribution(seq_cases, seq_impl)
    conc["by_mode_db"] = dict(sorted(conc["by_mode_db"].items()))
    conc["batch_results"] = dict(sorted(conc["batch_results"].items()))
    d["concurrent"] = conc
    return d


REGISTERED = True
