"""C06 — State-vector diff returns exactly what the remote is missing."""
import itertools

ID = "C06"
HARNESS_PKG = "h_c06"
COQ_IMPORTS = "From PV Require Import Model.Heights Model.Cursor Oracle.C06.\nOpen Scope N_scope."
COQ_SHARD = 300
TECHNIQUE = ("Coq proof (induction over the local height map: the diff read through lookup equals the range specification; "
             "merge of the diff = pointwise maximum) + differential correspondence of the Gallina model with the real "
             "p2panda_core::logs::compare and Cursor::compare")
LEVEL_TEXT = ("Theorems C06_compare_spec / C06_compare_range_iff / C06_merge_is_max / C06_compare_self_empty / C06_compare_antimonotone / "
              "C06_compare_empty_inner / C06_cursor_compare_spec are proved in Coq for all pairs of height maps with unique keys (any number of "
              "authors, logs, any heights; no bound), C06_oracle_sound shows the boolean oracle implies the two equations for every (author, log). "
              "The model (a transcription of logs.rs:61-120 including the `local_logs == remote_logs` shortcut and the empty inner map emitted "
              "for an unknown author without logs) is tied to the code on every run: the real compare and Cursor::compare (BTreeMap over real "
              "VerifyingKeys) and the model are run on the same map pairs (small domains exhaustively, plus random large maps) and their diffs "
              "compared entry by entry; the oracle is evaluated on the implementation's diffs.")
LEVEL_NOTE = ("Trusted: Coq kernel + vm_compute; hand-written model; BTreeMap behaving as a finite map with unique keys (get/iter/insert/==); "
              "harness/python glue. Correspondence is differential testing, bounded by the generators.")
ASSUMPTIONS = ["height maps have unique keys per level (BTreeMap invariant; the generators only produce such maps, the harness asserts it)",
               "Ord/Eq of VerifyingKey and of the log id type agree with equality of the scenario indices"]
TRUSTED = ["modelled not verified: BTreeMap (get, iter order, entry/insert, PartialEq) as an association list with unique keys"]
RULE = ("both tiers: all 289 map pairs over 1 author x 2 logs x heights {-,0,1,2} (author absent / empty / any inner map) and all 625 pairs over "
        "2 authors x 1 log x {absent, empty, 0,1,2}; quick adds 600 random pairs from the 83 521-pair domain 2 authors x 2 logs x {-,0,1,2} (with absent/empty "
        "authors) and 200 random larger pairs (<= 12 authors x 6 logs, remote derived from local by dropping/equal/behind/ahead per log, whole-author copies "
        "for the == shortcut, heights up to u32::MAX); thorough adds the whole 10 000-pair domain 2 authors x 2 logs x {-,0,1}, 5000 random pairs of the "
        "83 521-pair domain and 3000 random pairs up to 30 authors x 8 logs. "
        "non-trivial = the diff has at least one range and at least one local log is not in the diff (remote equal or ahead)")


def _author_options(nlogs, hs):
    """All inner maps over logs 0..nlogs-1 with heights from hs or absent; plus None = author absent."""
    opts = [None]
    for combo in itertools.product([None] + list(hs), repeat=nlogs):
        opts.append([[l, h] for l, h in enumerate(combo) if h is not None])
    return opts


def _maps(nauthors, nlogs, hs):
    opts = _author_options(nlogs, hs)
    out = []
    for combo in itertools.product(opts, repeat=nauthors):
        out.append([[a, inner] for a, inner in enumerate(combo) if inner is not None])
    return out


def _rand_height(rng):
    r = rng.random()
    if r < 0.6:
        return rng.randrange(0, 12)
    if r < 0.8:
        return rng.randrange(0, 100000)
    return (1 << 32) - 1 - rng.randrange(0, 4)


def _rand_pair(rng, max_authors, max_logs):
    na = rng.randint(0, max_authors)
    authors = sorted(rng.sample(range(max_authors + 3), na))
    L = []
    for a in authors:
        nl = rng.randint(0, max_logs)
        ls = sorted(rng.sample(range(max_logs + 3), nl))
        L.append([a, [[l, _rand_height(rng)] for l in ls]])
    R = []
    for a, inner in L:
        r = rng.random()
        if r < 0.15:
            continue
        if r < 0.35:
            R.append([a, [list(e) for e in inner]])   # identical inner map: the == shortcut
            continue
        ri = []
        for l, h in inner:
            q = rng.random()
            if q < 0.2:
                continue
            if q < 0.45:
                ri.append([l, h])
            elif q < 0.75:
                ri.append([l, rng.randrange(0, h) if h > 0 else 0])
            else:
                ri.append([l, min((1 << 32) - 1, h + rng.randrange(1, 5))])
        # logs only the remote has
        for l in range(max_logs + 3):
            if all(e[0] != l for e in inner) and rng.random() < 0.1:
                ri.append([l, _rand_height(rng)])
        ri.sort()
        R.append([a, ri])
    for a in range(max_authors + 3):
        if a not in authors and rng.random() < 0.1:
            nl = rng.randint(0, max_logs)
            ls = sorted(rng.sample(range(max_logs + 3), nl))
            R.append([a, [[l, _rand_height(rng)] for l in ls]])
    R.sort()
    if rng.random() < 0.1:
        L, R = R, L
    return {"L": L, "R": R}


def gen(tier, rng):
    hs = [0, 1, 2]
    big = _maps(2, 2, hs)
    m12 = _maps(1, 2, hs)
    for L in m12:
        for R in m12:
            yield {"L": L, "R": R}
    m21 = _maps(2, 1, hs)
    for L in m21:
        for R in m21:
            yield {"L": L, "R": R}
    if tier == "quick":
        for _ in range(600):
            yield {"L": rng.choice(big), "R": rng.choice(big)}
        for _ in range(200):
            yield _rand_pair(rng, 12, 6)
    else:
        m22 = _maps(2, 2, [0, 1])
        for L in m22:
            for R in m22:
                yield {"L": L, "R": R}
        for _ in range(5000):
            yield {"L": rng.choice(big), "R": rng.choice(big)}
        for _ in range(3000):
            yield _rand_pair(rng, 30, 8)


def _line(m):
    toks = []
    for a, inner in m:
        if not inner:
            toks.append("%d/" % a)
        for l, h in inner:
            toks.append("%d/%d=%d" % (a, l, h))
    return " ".join(toks)


def harness_line(case):
    return "%s | %s" % (_line(case["L"]), _line(case["R"]))


def _coq_heights(m):
    return "[" + ";".join("(%d,[%s])" % (a, ";".join("(%d,%d)" % (l, h) for l, h in inner)) for a, inner in m) + "]"


def coq_model(case):
    return "model_line %s %s" % (_coq_heights(case["L"]), _coq_heights(case["R"]))


def _parse_diff(s):
    """'a/l=f,u a/' -> [[a, [[l, f, u], ...]], ...] in order of appearance."""
    out = []
    for tok in s.split():
        a, rest = tok.split("/", 1)
        a = int(a)
        if not out or out[-1][0] != a:
            out.append([a, []])
        if rest == "":
            continue
        l, fu = rest.split("=")
        f, u = fu.split(",")
        out[-1][1].append([int(l), None if f == "-" else int(f), None if u == "-" else int(u)])
    return out


def _coq_opt(x):
    return "None" if x is None else "Some %d" % x


def _coq_ranges(d):
    return "[" + ";".join("(%d,[%s])" % (a, ";".join("(%d,(%s,%s))" % (l, _coq_opt(f), _coq_opt(u)) for l, f, u in inner))
                          for a, inner in d) + "]"


def coq_oracle(case, impl):
    if impl.startswith("PANIC") or "|" not in impl:
        return "false"
    d, dc = impl.split("|")
    return "check %s %s %s %s" % (_coq_heights(case["L"]), _coq_heights(case["R"]), _coq_ranges(_parse_diff(d)), _coq_ranges(_parse_diff(dc)))


def nontrivial(case, impl):
    if impl.startswith("PANIC") or "|" not in impl:
        return False
    d = _parse_diff(impl.split("|")[0])
    in_diff = {(a, e[0]) for a, inner in d for e in inner}
    local = {(a, l) for a, inner in case["L"] for l, _h in inner}
    return bool(in_diff) and bool(local - in_diff)


def shrink(case):
    for side in ("L", "R"):
        m = case[side]
        for i in range(len(m)):
            c = dict(case)
            c[side] = m[:i] + m[i + 1:]
            yield c
        for i, (a, inner) in enumerate(m):
            for j in range(len(inner)):
                c = dict(case)
                c[side] = m[:i] + [[a, inner[:j] + inner[j + 1:]]] + m[i + 1:]
                yield c
        for i, (a, inner) in enumerate(m):
            for j, (l, h) in enumerate(inner):
                if h > 0:
                    for nh in {h // 2, h - 1}:
                        c = dict(case)
                        c[side] = m[:i] + [[a, inner[:j] + [[l, nh]] + inner[j + 1:]]] + m[i + 1:]
                        yield c


def distribution(cases, impl):
    na = [max(len(c["L"]), len(c["R"])) for c in cases]
    nl = [sum(len(i) for _a, i in c["L"]) + sum(len(i) for _a, i in c["R"]) for c in cases]
    kinds = {"missing_author": 0, "missing_log": 0, "behind": 0, "equal": 0, "ahead": 0, "empty_inner_local": 0, "shortcut_equal_author": 0}
    for c in cases:
        R = {a: dict((l, h) for l, h in inner) for a, inner in c["R"]}
        for a, inner in c["L"]:
            if not inner:
                kinds["empty_inner_local"] += 1
            if a in R and R[a] == dict((l, h) for l, h in inner):
                kinds["shortcut_equal_author"] += 1
            for l, h in inner:
                if a not in R:
                    kinds["missing_author"] += 1
                elif l not in R[a]:
                    kinds["missing_log"] += 1
                elif R[a][l] < h:
                    kinds["behind"] += 1
                elif R[a][l] == h:
                    kinds["equal"] += 1
                else:
                    kinds["ahead"] += 1
    return {"max_authors": max(na), "max_entries": max(nl), "mean_entries": round(sum(nl) / len(nl), 1), "log_kinds": kinds,
            "panics": sum(1 for v in impl.values() if v.startswith("PANIC"))}
