"""C22 — Sync session events follow the documented lifecycle."""
import re

ID = "C22"
HARNESS_PKG = "h_topicsync"
HARNESS_ARGS = ["c22"]
COQ_IMPORTS = "From PV Require Import Model.Dedup Model.TopicSync Oracle.C22."
HARNESS_TIMEOUT = 1800
COQ_SHARD = 64
TECHNIQUE = ("Coq proof over a model of TopicLogSync::run around the control flow of LogSync::run (all input sequences, closure points, "
             "sink fault positions, select schedules) + differential correspondence with the real session driven by a scripted remote, "
             "scripted live channel and fault-injecting sink; one genuine defect part recorded as known finding, two repaired")
LEVEL_TEXT = ("Proved in Coq (closed, no axioms) for every live flag, buffer capacity, local data, input sequence (any wire messages, stream "
              "errors, closure at any position, live-channel messages interleaved anywhere), sink fault position (transient or sticky) and "
              "select schedule: C22_lifecycle_every_run (the session returns; events = p ++ [t], t the single terminal event in last position, "
              "p a terminal-free prefix of SyncStarted Op* SyncFinished (LiveModeStarted Op*)?, t = SessionFinished only after the complete "
              "success sequence), C22_exactly_one_terminal_last, C22_result_matches_terminal, C22_oracle_iff_shape. The 'SessionStarted first' "
              "part is refuted for every session (C22_lifecycle_refuted, C22_session_started_never_emitted) and is the open known finding; "
              "C22_lifecycle_outside_known proves the full grammar with that event prepended. The model (code after the two fix: commits) is "
              "tied to topic_log_sync.rs/log_sync.rs on every run: real TopicLogSync::run over a real SqliteStore with every truncation, "
              "substitution and sink-fault position of several base sessions plus random scripts; result, events and sent messages compared.")
LEVEL_NOTE = ("Trusted: Coq kernel + vm_compute; hand-written model that abstracts heights/diffs/metrics (local data = ids to send per author); "
              "store calls never fail; a broadcast receiver exists; the remote closes eventually (a silent remote keeps a live session open: "
              "no terminal event yet, not an ended session). The unbiased select! order in the Sync loop cannot be driven from the harness: "
              "cases whose outcome depends on it are checked by the oracle only (flagged racy), the theorem covers every schedule.")
ASSUMPTIONS = ["store operations (resolve, get_log_heights, get_log_size, get_log_entries) succeed",
               "the session's broadcast event channel has at least one receiver",
               "the stream eventually yields an item or closes; futures polled by select! are ready or pending as scripted"]
TRUSTED = ["modelled not verified: LogSync data plane (heights, ranges, byte metrics), SqliteStore, tokio::select! fairness",
           "python classification of schedule-dependent (racy) cases, for which only the oracle is evaluated"]
RULE = ("base sessions (live/non-live, with/without local data, remote done early/late, duplicates, local close) x every truncation point x "
        "every single-token substitution (unexpected sync/live/close message, stream error, undecodable operation) x sink fault at every "
        "sink operation (transient and sticky), plus random scripts; part A (SessionStarted first) is evaluated on the base sessions. "
        "non-trivial = a fault is injected or at least one operation event occurs")

FINDING = "session_started_never_emitted"

# (live, store counts, extra remote ops, script)
BASES = [
    (1, [], 3, "H D p0 V1 p1 V0 c C"),
    (1, [2], 3, "H P O100 O101 D p102 V102 p0 V100 c C"),
    (0, [1, 2], 1, "H D"),
    (0, [], 2, "H P O0 O1 O0 D"),
    (1, [], 2, "H P O0 D V0 V1 V1 C"),
    (1, [1], 1, "H D c"),
    (1, [], 1, "H D p0 c V0"),
]
SUBST = ["H", "P", "D", "B", "C", "E"]


def _case(part, live, store, extra, script, sf=None, sticky=0, cap=1024):
    return {"part": part, "live": live, "cap": cap, "store": store, "extra": extra, "sf": sf, "sticky": sticky, "script": script}


def _nops(store, script):
    # upper bound on the number of sink operations of a run
    return 2 * (2 + sum(store) + 1 + len(script)) + 2


def gen(tier, rng):
    quick = tier == "quick"
    for live, store, extra, sc in BASES:
        toks = sc.split()
        yield _case("A", live, store, extra, toks)
        yield _case("B", live, store, extra, toks)
        ops = ["O%d" % (100 * len(store) + i) for i in range(extra)] + ["V%d" % (100 * len(store))]
        # every truncation point
        for k in range(len(toks)):
            yield _case("B", live, store, extra, toks[:k])
        # every single-token substitution
        for k in range(len(toks)):
            alts = SUBST + ops
            if quick:
                alts = [a for i, a in enumerate(alts) if (i + k) % 2 == 0]
            for a in alts:
                if a != toks[k]:
                    yield _case("B", live, store, extra, toks[:k] + [a] + toks[k + 1:])
        # sink fault at every operation
        n = _nops(store, toks)
        for k in range(n):
            for sticky in (0, 1):
                if quick and (k + sticky) % 2 == 1 and k > 6:
                    continue
                yield _case("B", live, store, extra, toks, sf=k, sticky=sticky)
        # small dedup window
        yield _case("B", live, store, extra, toks, cap=1)
        yield _case("B", live, store, extra, toks, cap=2)
    # random scripts
    nrand = 60 if quick else 1500
    for _ in range(nrand):
        live = rng.randint(0, 1)
        store = [rng.randint(1, 3) for _ in range(rng.randint(0, 2))]
        extra = rng.randint(0, 4)
        ex = [100 * len(store) + i for i in range(extra)]
        mine = [100 * a + s for a, n in enumerate(store) for s in range(n)]
        toks = ["H"]
        if ex and rng.random() < 0.7:
            toks.append("P")
            for _ in range(rng.randint(0, 5)):
                toks.append("O%d" % rng.choice(ex))
            toks.append("D")
        else:
            toks.append("D")
        if live:
            allops = ex + mine
            for _ in range(rng.randint(0, 8)):
                r = rng.random()
                if allops and r < 0.4:
                    toks.append("p%d" % rng.choice(allops))
                elif allops and r < 0.8:
                    toks.append("V%d" % rng.choice(allops))
                elif r < 0.9:
                    toks.append("c")
                else:
                    toks.append("C")
        # mutations
        r = rng.random()
        if r < 0.25 and toks:
            toks = toks[:rng.randrange(len(toks) + 1)]
        elif r < 0.5 and toks:
            k = rng.randrange(len(toks))
            toks[k] = rng.choice(SUBST + ["O%d" % x for x in ex] + ["V%d" % x for x in ex])
        elif r < 0.6:
            toks.insert(rng.randrange(len(toks) + 1), rng.choice(SUBST))
        sf, sticky = None, 0
        if rng.random() < 0.35:
            sf, sticky = rng.randrange(_nops(store, toks)), rng.randint(0, 1)
        cap = rng.choice([1, 2, 3, 1024])
        yield _case("B", live, store, extra, toks, sf=sf, sticky=sticky, cap=cap)


def harness_line(case):
    return "%d %d %s %d %s %d %s" % (
        case["live"], case["cap"], ",".join(map(str, case["store"])) or "-", case["extra"],
        "-" if case["sf"] is None else case["sf"], case["sticky"], " ".join(case["script"]))


def _tok(t):
    k, rest = t[0], t[1:]
    if k == "H":
        return "InS (SMsg (WSync MHave))"
    if k == "P":
        return "InS (SMsg (WSync MPreSync))"
    if k == "D":
        return "InS (SMsg (WSync MDone))"
    if k == "O":
        return "InS (SMsg (WSync (MOp %s%%N)))" % rest
    if k == "B":
        return "InS (SMsg (WSync MOpBad))"
    if k == "V":
        return "InS (SMsg (WLive %s%%N))" % rest
    if k == "C":
        return "InS (SMsg WClose)"
    if k == "E":
        return "InS SErr"
    if k == "p":
        return "InL (LPayload %s%%N)" % rest
    if k == "c":
        return "InL LClose"
    raise ValueError(t)


def _cfg(case):
    sends = "[" + "; ".join("[" + "; ".join("%d%%N" % (100 * a + s) for s in range(n)) + "]" for a, n in enumerate(case["store"])) + "]"
    return "{| live := %s; cap := %d; sends := %s |}" % ("true" if case["live"] else "false", case["cap"], sends)


def coq_model(case):
    return "model_line %s [%s] %s %s []" % (
        _cfg(case), "; ".join(_tok(t) for t in case["script"]),
        "None" if case["sf"] is None else "(Some %d)" % case["sf"], "true" if case["sticky"] else "false")


def _events(s):
    out = []
    for t in s.split():
        if t == "-":
            continue
        out.append({"S": "ESessionStarted", "Y": "ESyncStarted", "F": "ESyncFinished", "L": "ELiveStarted",
                    "X": "ESessionFinished", "E": "EFailed"}.get(t) or "EOp %s%%N" % t[1:])
    return "[" + "; ".join(out) + "]"


def coq_oracle(case, impl):
    res, evs, _sent = [p.strip() for p in impl.split("|")]
    if case["part"] == "A":
        return "check_started %s" % _events(evs)
    ir = "IOk" if res == "Ok" else ("IErr" if res.startswith("Err:") else "IBad")
    return "check_rest %s %s %s" % ("true" if case["live"] else "false", ir, _events(evs))


def racy(case):
    """The outcome may depend on which select! branch of the Sync loop is polled first."""
    t = case["script"]
    if not case["store"] or len(t) < 2 or t[0] != "H" or t[1] != "P":
        return None
    stream = [x for x in t[2:] if x[0] not in "pc"]
    loop = []
    for x in stream:
        loop.append(x)
        if x[0] != "O":
            break
    clean = bool(loop) and loop[-1] == "D"
    mine = {"O%d" % (100 * a + s) for a, n in enumerate(case["store"]) for s in range(n)}
    echo = any(x in mine for x in loop)
    if case["sf"] is not None and (len(loop) > 1 or not clean):
        return "all"
    if echo:
        return "all"
    if len(loop) > 1 and case["cap"] < 64:
        return "all"   # evictions of the small de-duplication buffer depend on the send/receive interleaving
    if not clean:
        return "sent"
    return None


def _norm(line):
    return re.sub(r"Err:[A-Za-z.]*", "Err", line)


def agree(case, impl, model):
    r = racy(case)
    if r == "all":
        return True
    a, b = _norm(impl).split("|"), _norm(model).split("|")
    if r == "sent":
        return a[:2] == b[:2]
    return a == b


def known(case, impl):
    # class of the open finding: part A of every session (no event list starts with SessionStarted)
    if case["part"] == "A":
        evs = impl.split("|")[1].split()
        if not evs or evs[0] != "S":
            return FINDING
    return None


def nontrivial(case, impl):
    evs = impl.split("|")[1]
    return case["sf"] is not None or "O" in evs or not impl.startswith("Ok")


def shrink(case):
    sc = case["script"]
    for i in range(len(sc)):
        c = dict(case)
        c["script"] = sc[:i] + sc[i + 1:]
        yield c
    if case["sf"] is not None:
        c = dict(case)
        c["sf"] = None
        yield c
    if case["store"]:
        c = dict(case)
        c["store"] = case["store"][:-1]
        yield c


def distribution(cases, impl):
    kinds, rac = {}, {"all": 0, "sent": 0, "none": 0}
    for i, c in enumerate(cases):
        r = impl.get(i, "?").split("|")[0].strip()
        kinds[r] = kinds.get(r, 0) + 1
        rac[racy(c) or "none"] += 1
    return {"cases": len(cases), "part_A": sum(1 for c in cases if c["part"] == "A"),
            "with_sink_fault": sum(1 for c in cases if c["sf"] is not None),
            "live": sum(1 for c in cases if c["live"]), "max_script": max(len(c["script"]) for c in cases),
            "result_kinds": dict(sorted(kinds.items())), "schedule_dependent": rac}
