"""C11 — Causal orderer releases items only after, and always after, their dependencies."""
import itertools

ID = "C11"
HARNESS_PKG = "h_c11"
HARNESS_ARGS = ["c11"]
COQ_IMPORTS = "From PV Require Import Model.Orderer Oracle.C11."
TECHNIQUE = ("Coq proof over a Gallina model of the OrdererStore SQL (ready/pending tables) and CausalOrderer::process/process_pending/next "
             "(invariants by induction over operation lists and recursion fuel, for every HashSet iteration order) + differential "
             "correspondence with the real CausalOrderer<Hash, SqliteStore> and the real Orderer processor over signed operations")
LEVEL_TEXT = ("Proved in Coq, closed under the global context, for every list of deliveries/next/drain operations (any order, repeated "
              "deliveries, repeated or missing dependency entries), every iteration order of the HashSet returned by get_next_pending and "
              "every interleaving of next calls: C11_release_after_deps (safety, unconditional), C11_blocked_stay_blocked, "
              "C11_eventual_release, C11_released_set_independent (order/duplication/HashSet independence of the released set), "
              "C11_deps_as_set + C11_ready_is_set_test, C11_fuel_sufficient (recursion depth bounded by the height of the delivered DAG). "
              "C11_count_refuted records that the pre-repair `ready` (COUNT vs len) is not a set test. The model is tied to "
              "p2panda-store/src/orderer/sqlite.rs and p2panda-stream/src/orderer/{orderer,processor}.rs on every run: exhaustive delivery "
              "permutations of all small DAG shapes with repeated/missing dependency variants plus random DAGs, on both the CausalOrderer "
              "(hook re-export) and the Orderer processor; the table-model-independent oracle is evaluated on the implementation's releases.")
LEVEL_NOTE = ("Liveness theorems carry the hypothesis no_oof (the model's recursion fuel sufficed); C11_fuel_sufficient discharges it for any "
              "delivered graph with a rank function (DAG). For cyclic *and* inconsistent deliveries (same id, different dependency lists) the "
              "Rust recursion is unbounded; ids are content hashes in p2panda, so this cannot be constructed there. Correspondence is "
              "differential testing; where the model says the released sequence depends on the HashSet order (flag M) only batch sets / "
              "multisets (only the released set when items are re-delivered between single next calls: whether a re-delivered item is queued again depends on whether it was already taken) are compared, the order itself is judged by the oracle.")
ASSUMPTIONS = ["SQLite executes the issued SQL with standard semantics (PRIMARY KEY, UNIQUE index, INSERT OR IGNORE, ORDER BY, COUNT, IN)",
               "set_digest (BLAKE3 over fixed-width hex ids) is injective on (child, sorted parents)",
               "each CausalOrderer call runs in one committed transaction (as Orderer::process/next and the crate's tests do)",
               "liveness: the recursion of process_pending terminates (proved for DAGs: C11_fuel_sufficient)"]
TRUSTED = ["modelled not verified: SQLite/sqlx semantics, HashSet iteration order as an arbitrary permutation per call, digest injectivity",
           "hook: p2panda-stream/src/orderer/verif_c11.rs (re-export of CausalOrderer; Ordering<Hash> for Operation<E: VerifDependencies>)"]
RULE = ("quick: every DAG shape on <= 3 nodes x every delivery permutation x {plain, every dependency repeated, one missing dependency} x "
        "{drain at end, drain after every delivery, single next calls} on both drivers, a seeded sample of the 4-node shapes, duplicates of "
        "deliveries, cycles and re-deliveries with other dependency lists (CausalOrderer only), 60 random DAGs <= 25 nodes; thorough: 4000 of "
        "the 13824 4-node shape x permutation x variant x style combinations, 1500 5-node ones, 400 random DAGs <= 40 nodes. non-trivial = some item is delivered "
        "before one of its dependencies (it has to wait or stay blocked) and at least two items are released")
NONTRIVIAL_FLOOR = 50
HARNESS_TIMEOUT = 1800
COQ_SHARD = 100


# ------------------------------------------------------------------------------------------------
# generators
# ------------------------------------------------------------------------------------------------

def _shapes(n):
    """all DAGs on nodes 0..n-1 with deps(i) a subset of {0..i-1}"""
    per_node = []
    for i in range(n):
        subs = []
        for mask in range(1 << i):
            subs.append([j for j in range(i) if mask >> j & 1])
        per_node.append(subs)
    for combo in itertools.product(*per_node):
        yield [list(c) for c in combo]


def _variant(deps, kind, n):
    if kind == "plain":
        return deps
    if kind == "repeat":
        return [d + d[:1] + d if d else d for d in deps]       # [a,b] -> [a,b,a,a,b]
    if kind == "missing":
        out = [list(d) for d in deps]
        out[n - 1] = out[n - 1] + [90 + n]
        return out
    raise ValueError(kind)


def _ops(order, deps, style, rng=None):
    ops = []
    for k, x in enumerate(order):
        ops.append(["d", x, deps[x]])
        if style == "each":
            ops.append(["D"])
        elif style == "next":
            ops.append(["n"])
            if k % 2 == 1:
                ops.append(["n"])
        elif style == "mix" and rng is not None:
            r = rng.random()
            if r < 0.2:
                ops.append(["n"])
            elif r < 0.3:
                ops.append(["D"])
    if style == "next":
        ops += [["n"]] * 2
    ops.append(["D"])
    return ops


def _small(n, rng, sample=None):
    cases = []
    for deps in _shapes(n):
        for order in itertools.permutations(range(n)):
            for kind in ("plain", "repeat", "missing"):
                for style in ("end", "each", "next"):
                    cases.append((deps, order, kind, style))
    if sample is not None and len(cases) > sample:
        cases = rng.sample(cases, sample)
    for i, (deps, order, kind, style) in enumerate(cases):
        d = _variant(deps, kind, n)
        yield {"mode": "co" if i % 2 == 0 else "op", "ops": _ops(list(order), d, style)}


def _random_dag(rng, nmax):
    n = rng.randint(2, nmax)
    deps = []
    for i in range(n):
        k = min(i, rng.choice([0, 1, 1, 2, 2, 3, 4]))
        d = rng.sample(range(i), k) if k else []
        if d and rng.random() < 0.2:
            d = d + [rng.choice(d) for _ in range(rng.randint(1, 2))]     # repeated entries
            rng.shuffle(d)
        if rng.random() < 0.08:
            d = d + [1000 + i]                                             # never delivered
        deps.append(d)
    order = list(range(n))
    # mostly-causal order with local disorder, or a fully random one
    if rng.random() < 0.5:
        rng.shuffle(order)
    else:
        for _ in range(n):
            a = rng.randrange(n)
            b = min(n - 1, a + rng.randint(1, 4))
            order[a], order[b] = order[b], order[a]
    # some nodes are never delivered, some twice
    order = [x for x in order if rng.random() > 0.05]
    for _ in range(rng.randint(0, 3)):
        if order:
            order.insert(rng.randrange(len(order) + 1), rng.choice(order))
    return {"mode": rng.choice(["co", "op"]), "ops": _ops(order, deps, "mix", rng)}


def _specials():
    """CausalOrderer only: cycles, self-dependency, the same id with different dependency lists."""
    D = ["D"]
    yield {"mode": "co", "ops": [["d", 0, [1]], ["d", 1, [0]], D, ["d", 2, []], D]}
    yield {"mode": "co", "ops": [["d", 0, [0]], D, ["d", 1, []], ["d", 0, [0]], D]}
    yield {"mode": "co", "ops": [["d", 2, [0, 1]], D, ["d", 2, [0]], D, ["d", 0, []], D, ["d", 1, []], D]}
    yield {"mode": "co", "ops": [["d", 2, [1]], ["d", 2, [0]], ["d", 0, []], ["n"], ["n"], ["n"], ["d", 1, []], D]}
    yield {"mode": "co", "ops": [["d", 1, [0]], ["d", 1, [0]], ["d", 0, []], ["d", 0, []], ["n"], ["d", 0, []], D]}
    yield {"mode": "co", "ops": [["d", 0, []], ["n"], ["d", 0, []], ["n"], ["n"], ["d", 1, [0, 0, 0]], ["n"], D]}
    yield {"mode": "co", "ops": [["d", 3, [1, 2]], ["d", 1, [0]], ["d", 2, [0, 1]], ["d", 0, [3]], D, ["d", 4, []], D]}
    yield {"mode": "op", "ops": [["d", 0, []], ["n"], ["d", 0, []], ["n"], ["n"], ["d", 1, [0, 0, 0]], ["n"], D]}
    yield {"mode": "op", "ops": [["d", 5, [3, 4]], ["d", 4, [3]], ["d", 3, [2]], ["d", 2, [1]], ["d", 1, [0]], ["n"], ["d", 0, []], D]}


def gen(tier, rng):
    yield from _specials()
    if tier == "quick":
        for n in (1, 2, 3):
            yield from _small(n, rng)
        yield from _small(4, rng, sample=250)
        for _ in range(60):
            yield _random_dag(rng, 25)
    else:
        for n in (1, 2, 3):
            yield from _small(n, rng)
        yield from _small(4, rng, sample=4000)
        yield from _small(5, rng, sample=1500)
        for _ in range(400):
            yield _random_dag(rng, 40)


# ------------------------------------------------------------------------------------------------
# rendering
# ------------------------------------------------------------------------------------------------

def harness_line(case):
    toks = []
    for o in case["ops"]:
        if o[0] == "d":
            toks.append("d%d:%s" % (o[1], ",".join(map(str, o[2]))))
        else:
            toks.append(o[0])
    return case["mode"] + " " + " ".join(toks)


def _nl(xs):
    return "[" + ";".join("%d%%N" % x for x in xs) + "]"


def _coq_ops(case):
    parts = []
    for o in case["ops"]:
        if o[0] == "d":
            parts.append("Deliver %d%%N %s" % (o[1], _nl(o[2])))
        elif o[0] == "n":
            parts.append("Next")
        else:
            parts.append("Drain")
    return "[" + ";".join(parts) + "]"


def coq_model(case):
    return "model_line %s" % _coq_ops(case)


def _parse_tokens(line):
    """impl/model tokens -> list of None | int | list[int]"""
    out = []
    for t in line.split():
        if t == "-":
            out.append(None)
        elif t.startswith("["):
            body = t[1:-1]
            out.append([int(x) for x in body.split(",") if x])
        else:
            out.append(int(t))
    return out


def coq_oracle(case, impl):
    toks = _parse_tokens(impl)       # raises on PANIC/ERR -> oracle false
    outs = []
    for t in toks:
        if t is None:
            outs.append("ONext None")
        elif isinstance(t, list):
            outs.append("ODrain %s" % _nl(t))
        else:
            outs.append("ONext (Some %d%%N)" % t)
    return "check %s [%s]" % (_coq_ops(case), ";".join(outs))


def agree(case, impl, model):
    if model.startswith("OOF"):
        return False
    flag, _, mline = model.partition(" ")
    if flag == "S":
        return impl.strip() == mline.strip()
    try:
        a, b = _parse_tokens(impl), _parse_tokens(mline)
    except Exception:
        return False
    if len(a) != len(b):
        return False

    def flat(ts):
        r = []
        for t in ts:
            if isinstance(t, list):
                r += t
            elif t is not None:
                r.append(t)
        return sorted(r)
    nodes = [o[1] for o in case["ops"] if o[0] == "d"]
    if any(o[0] == "n" for o in case["ops"]) and len(set(nodes)) < len(nodes):
        # an item delivered again is re-queued only if it has been taken already: with single `next`
        # calls that depends on the (HashSet dependent) order, so even the number of releases may
        # differ; what is released at all does not
        return set(flat(a)) == set(flat(b))
    # same shape: empty answers and batch sizes are independent of the iteration order
    for x, y in zip(a, b):
        if (x is None) != (y is None) or isinstance(x, list) != isinstance(y, list):
            return False
        if isinstance(x, list) and len(x) != len(y):
            return False
    if all(o[0] != "n" for o in case["ops"]):
        return all(sorted(x) == sorted(y) for x, y in zip(a, b))
    return flat(a) == flat(b)


def _released(impl):
    try:
        n = 0
        for t in _parse_tokens(impl):
            if isinstance(t, list):
                n += len(t)
            elif t is not None:
                n += 1
        return n
    except Exception:
        return 0


def _out_of_order(case):
    seen = set()
    for o in case["ops"]:
        if o[0] == "d":
            if any(d not in seen for d in o[2]):
                return True
            seen.add(o[1])
    return False


def nontrivial(case, impl):
    return _out_of_order(case) and _released(impl) >= 2


def shrink(case):
    ops = case["ops"]
    for i in range(len(ops)):
        yield {"mode": case["mode"], "ops": ops[:i] + ops[i + 1:]}
    if case["mode"] == "co":      # in `op` mode the dependencies of a node are those of its first delivery
        for i, o in enumerate(ops):
            if o[0] == "d":
                for j in range(len(o[2])):
                    yield {"mode": case["mode"], "ops": ops[:i] + [["d", o[1], o[2][:j] + o[2][j + 1:]]] + ops[i + 1:]}
    else:
        yield {"mode": "co", "ops": ops}


def distribution(cases, impl):
    modes, rep, missing, dup, maxn = {}, 0, 0, 0, 0
    for c in cases:
        modes[c["mode"]] = modes.get(c["mode"], 0) + 1
        ds = [o for o in c["ops"] if o[0] == "d"]
        nodes = [o[1] for o in ds]
        maxn = max(maxn, len(set(nodes)))
        if any(len(set(o[2])) < len(o[2]) for o in ds):
            rep += 1
        if any(any(d not in nodes for d in o[2]) for o in ds):
            missing += 1
        if len(set(nodes)) < len(nodes):
            dup += 1
    return {"modes": modes, "with_repeated_dependency": rep, "with_missing_dependency": missing,
            "with_repeated_delivery": dup, "max_nodes": maxn,
            "out_of_order": sum(1 for c in cases if _out_of_order(c))}


REGISTERED = True
