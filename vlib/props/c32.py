"""C32 — Group state merge is commutative, associative and idempotent."""
import itertools

ID = "C32"
HARNESS_PKG = "h_c32"
HARNESS_ARGS = ["c32"]
COQ_IMPORTS = "From PV Require Import Model.GroupState Oracle.C32."
COQ_SHARD = 330
TECHNIQUE = ("Coq proof (merge of one member = selection by a lexicographic strict total order; lookup characterisation of the fold "
             "over the map) + differential correspondence of the Gallina model with the real state::merge (cfg hook)")
LEVEL_TEXT = ("Proved in Coq for all states (no size bound), extensionally on every lookup: merge is idempotent for every condition type and order; "
              "commutative and associative (a) for the real Access order at every member whose entries carry no conditions (covers C = ()), and "
              "(b) for the same merge code under ANY access order that is a strict total order (hypothesis TotalAccess, shown satisfiable by lex_lt). "
              "Also proved: the real Access::partial_cmp with conditions is not such an order and the real merge is then neither commutative nor "
              "associative (C32_refuted_conditions, C32_assoc_refuted_conditions; reproduced on the real code = open finding). "
              "The model is tied to p2panda-auth state.rs/access.rs on every run by running the real state::merge on all per-member triples over "
              "small counter/level/condition domains (packed into multi-member states) and comparing all five merged states with the model.")
LEVEL_NOTE = ("Trusted: Coq kernel + vm_compute; hand-written model (HashMap = association list with unique keys, usize = N); harness/python glue. "
              "Correspondence is differential testing. Known finding merge_noncommutative_with_conditions is open.")
ASSUMPTIONS = ["states are maps: one entry per member id (wf = NoDup keys), as HashMap guarantees",
               "counters do not overflow usize",
               "C32_merge_comm/assoc: no entry of the member carries access conditions; the *_total_access variants: the access order is a strict total order (TotalAccess)"]
TRUSTED = ["modelled not verified: HashMap iteration (order shown irrelevant by lookup_merge), usize counters as unbounded N, "
           "conditions in the harness are a u64 newtype with derived PartialEq/PartialOrd"]
RULE = ("per-member domain: absent | member_counter 0..2 x access_counter 0..2 x 4 levels x conditions {none, 1, 2} (37 values without, 109 with conditions). "
        "Per-member triples are packed into multi-member states (32 members per case, entry order shuffled). "
        "quick: ALL 37^2 pairs without conditions (two random thirds each), ALL 109^2 pairs with conditions (one random third), 150 random 16-member and "
        "200 random 2-member triples with conditions; "
        "thorough: ALL 37^3 triples without conditions, ALL 109^2 pairs with conditions x 3 random thirds, 600 + 600 random cases. "
        "non-trivial = some member present in two of the states with equal member counter")
SEARCH_LIMIT = 1000
NONTRIVIAL_FLOOR = 50

LEVELS = (0, 1, 2, 3)


def domain(conds):
    """all member entries (mc, level, cond, ac); None = absent"""
    d = [None]
    for mc in range(3):
        for ac in range(3):
            for lv in LEVELS:
                for c in conds:
                    d.append((mc, lv, c, ac))
    return d


def pack(triples, k, rng):
    """pack per-member triples into cases with k members each (entry order shuffled)"""
    for i in range(0, len(triples), k):
        chunk = triples[i:i + k]
        ss = [[], [], []]
        for mid, tr in enumerate(chunk):
            for j in range(3):
                if tr[j] is not None:
                    mc, lv, c, ac = tr[j]
                    ss[j].append([mid, mc, lv, c, ac])
        for s in ss:
            rng.shuffle(s)
        yield {"n": len(chunk), "s1": ss[0], "s2": ss[1], "s3": ss[2]}


def gen(tier, rng):
    d0 = domain([0])
    d1 = domain([0, 1, 2])
    if tier == "quick":
        # ALL pairs without conditions (two random thirds each), ALL pairs with conditions (one random third)
        t0 = [(a, b, rng.choice(d0)) for a in d0 for b in d0 for _ in range(2)]
        thirds, nr16, nr2 = 1, 150, 200
    else:
        # ALL triples without conditions, ALL pairs with conditions (three random thirds each)
        t0 = list(itertools.product(d0, repeat=3))
        thirds, nr16, nr2 = 3, 600, 600
    yield from pack(t0, 32, rng)
    t1 = [(a, b, rng.choice(d1)) for a in d1 for b in d1 for _ in range(thirds)]
    yield from pack(t1, 32, rng)
    for _ in range(nr16):
        yield from pack([(rng.choice(d1), rng.choice(d1), rng.choice(d1)) for _ in range(16)], 16, rng)
    for _ in range(nr2):
        yield from pack([(rng.choice(d1), rng.choice(d1), rng.choice(d1)) for _ in range(2)], 2, rng)


def _entry(e):
    mid, mc, lv, c, ac = e
    return "%d:%d:%d:%s:%d" % (mid, mc, lv, "-" if c == 0 else str(c), ac)


def harness_line(case):
    return " | ".join(" ".join(_entry(e) for e in case[k]) for k in ("s1", "s2", "s3"))


def _code(e):
    mid, mc, lv, c, ac = e
    assert mc < 16 and ac < 16 and c < 16 and lv < 4
    return (((mid * 16 + mc) * 16 + ac) * 4 + lv) * 16 + c


def _coq_state(entries):
    """one number per entry (see Oracle/C32.v: decode_entry)"""
    return "([" + ";".join(str(_code(e)) for e in entries) + "]%N)"


def coq_model(case):
    return "model_line %d %s %s %s" % (case["n"], _coq_state(case["s1"]), _coq_state(case["s2"]), _coq_state(case["s3"]))


def parse_impl(impl):
    """impl line -> list of five states, each a list of [id, mc, lv, c, ac]"""
    parts = impl.split("|")
    if len(parts) != 5:
        raise ValueError("five states expected")
    out = []
    for p in parts:
        st = []
        for tok in p.strip().split(","):
            if not tok:
                continue
            f = tok.split(":")
            st.append([int(f[0]), int(f[1]), int(f[2]), 0 if f[3] == "-" else int(f[3]), int(f[4])])
        out.append(st)
    return out


def coq_oracle(case, impl):
    m = parse_impl(impl)
    return "check_codes %s %s" % (_coq_state(case["s1"]), " ".join(_coq_state(s) for s in m))


def agree(case, impl, model):
    """the harness prints readable entries, the model prints their codes (sorted by id)"""
    try:
        m = parse_impl(impl)
    except Exception:
        return False
    enc = " | ".join(",".join(str(_code(e)) for e in sorted(st)) for st in m)
    return enc == model


def _by_id(st):
    return {e[0]: tuple(e[1:]) for e in st}


def failing_ids(case, impl):
    m = [_by_id(s) for s in parse_impl(impl)]
    s1 = _by_id(case["s1"])
    bad = set()
    for a, b in ((m[0], m[1]), (m[2], m[3]), (m[4], s1)):
        for k in set(a) | set(b):
            if a.get(k) != b.get(k):
                bad.add(k)
    return bad


def in_known_class(case, mid):
    """two entries of member `mid` tie on both counters, differ in access, and a condition is involved"""
    es = [e for k in ("s1", "s2", "s3") for e in case[k] if e[0] == mid]
    for x, y in itertools.combinations(es, 2):
        if x[1] == y[1] and x[4] == y[4] and (x[2], x[3]) != (y[2], y[3]) and (x[3] != 0 or y[3] != 0):
            return True
    return False


def known(case, impl):
    try:
        bad = failing_ids(case, impl)
    except Exception:
        return None
    if bad and all(in_known_class(case, k) for k in bad):
        return "merge_noncommutative_with_conditions"
    return None


def nontrivial(case, impl):
    for mid in range(case["n"]):
        es = [e for k in ("s1", "s2", "s3") for e in case[k] if e[0] == mid]
        for x, y in itertools.combinations(es, 2):
            if x[1] == y[1]:
                return True
    return False


def shrink(case):
    """members are independent: first try every single member on its own, then drop entries"""
    total = sum(len(case[k]) for k in ("s1", "s2", "s3"))
    present = sorted({e[0] for k in ("s1", "s2", "s3") for e in case[k]})
    if len(present) > 1:
        for mid in present:
            yield {"n": case["n"], "s1": [e for e in case["s1"] if e[0] == mid],
                   "s2": [e for e in case["s2"] if e[0] == mid], "s3": [e for e in case["s3"] if e[0] == mid]}
    elif total > 1:
        for k in ("s3", "s2", "s1"):
            if case[k]:
                c = dict(case)
                c[k] = []
                yield c


def distribution(cases, impl):
    members = sum(c["n"] for c in cases)
    withc = sum(1 for c in cases if any(e[3] != 0 for k in ("s1", "s2", "s3") for e in c[k]))
    fails_known = 0
    for i, c in enumerate(cases):
        if i in impl:
            try:
                if failing_ids(c, impl[i]):
                    fails_known += 1
            except Exception:
                pass
    return {"cases": len(cases), "member_triples": members, "cases_with_conditions": withc,
            "cases_without_conditions": len(cases) - withc, "cases_where_a_law_fails_on_impl": fails_known}
