"""C19 — Log sync delivers exactly the missing operations; both replicas converge."""
from . import _logsync as L

ID = "C19"
HARNESS_PKG = "h_logsync"
HARNESS_ARGS = ["c19"]
COQ_IMPORTS = "From PV Require Import Model.Dedup Model.LogSync Lib.LogSyncShow Oracle.C20 Oracle.C19."
COQ_SHARD = 25
TECHNIQUE = ("Coq proofs over the LogSync state-machine model: script (what a side sends is a function of its replica and the accepted Have, "
             "for every interleaving), sent_ops_exact (= rows above the peer's height per configured log), joint invariant of two machines "
             "over FIFO queues for every schedule (received_exact, termination via deadlock freedom + decreasing measure), converge "
             "(heights after ingest = pointwise max); + differential correspondence with two real LogSync::run sessions over in-memory channels")
LEVEL_TEXT = ("Theorems C19_script / C19_script_interleaving_independent / C19_sent_ops_exact / C19_received_exact(_wf) / C19_converge / "
              "C19_termination are proved in Coq, closed under the global context, for all replicas (any authors/logs/heights/pruned "
              "prefixes/gaps), all configurations and all schedules of the joint model; no bound. The model is tied to "
              "p2panda-sync/src/protocols/log_sync.rs, p2panda-core/src/logs.rs and the SQLite log store on every run: random replica "
              "pairs (overlapping prefixes, pruned logs, gaps, empty sides, differing configurations) are put into two SqliteStores, two real "
              "sessions run against each other, and sink messages, OperationReceived events and heights after ingest are compared with the "
              "model's line; the oracle (expected_ops / grammar / pointwise-max heights) is evaluated on the implementation's observation.")
LEVEL_NOTE = ("Hypotheses of the theorems: the store does not change during the session (C20 covers changes); row sizes > 0; operation ids "
              "pairwise distinct over what the two sides send (received_exact; derived in received_exact_wf from: id = function of "
              "(author, log, seq) injective on the rows of both replicas, unique seqs per log, every author/log configured once); "
              "NoDup authors in the configuration (converge). Ingest of "
              "received operations is modelled as adding the row (C01/C03 are about the ingest pipeline). Trusted: Coq kernel + vm_compute; "
              "hand-written model; SQLite; harness/python glue. Correspondence is differential testing.")
ASSUMPTIONS = ["static stores during the session; positive row sizes; distinct operation ids; every configured log list non-empty",
               "both replicas hold the same operation for the same (author, log, seq) (no forks) - generated that way"]
TRUSTED = ["modelled not verified: SQLite query semantics, CBOR decoding, ingest accepting received operations, tokio select! fairness"]
RULE = ("quick: 160 random replica pairs drawn from a common universe of logs (1-4 authors x 1-2 logs, per side a window [lo..hi] of each log: "
        "absent / pruned prefix / behind / ahead / equal, 12% gaps; 20% of the cases with a different configuration on side B) + 8 fixed "
        "boundary cases; thorough: 900 pairs with logs up to 32 rows. non-trivial = the session completed and at least one operation was sent")

FIXED = [
    {"logs": [], "repa": [], "repb": []},
    {"logs": [[0, [0]]], "repa": [], "repb": []},
    {"logs": [[0, [0]]], "repa": [[0, 0, [[0, 500], [1, 510], [2, 520]]]], "repb": []},
    {"logs": [[0, [0]]], "repa": [[0, 0, [[0, 500], [1, 510], [2, 520]]]], "repb": [[0, 0, [[0, 500]]]]},
    {"logs": [[0, [0]]], "repa": [[0, 0, [[2, 520], [3, 530]]]], "repb": [[0, 0, [[0, 500], [1, 510]]]]},
    {"logs": [[0, [0]], [1, [0, 1]]], "repa": [[0, 0, [[0, 500]]], [1, 1, [[0, 700], [1, 710]]]], "repb": [[1, 0, [[4, 640]]], [1, 1, [[0, 700]]]]},
    {"logs": [[0, [0]]], "logsb": [[1, [0]]], "repa": [[0, 0, [[0, 500]]]], "repb": [[1, 0, [[0, 600]]], [0, 0, [[0, 500], [1, 510]]]]},
    {"logs": [[0, [0, 1]], [2, [0]]], "repa": [[0, 0, [[0, 400], [1, 410]]], [0, 1, [[0, 420]]], [2, 0, [[0, 430]]]],
     "repb": [[0, 0, [[0, 400], [1, 410]]], [0, 1, [[0, 420]]], [2, 0, [[0, 430]]]]},
]


def window(rng, full, gaps=True):
    """A side's view of a full log (list of [seq, size]): nothing, or a window lo..hi, maybe with a gap."""
    n = len(full)
    r = rng.random()
    if n == 0 or r < 0.2:
        return []
    hi = rng.randint(1, n)
    lo = 0 if rng.random() < 0.6 else rng.randint(0, hi - 1)
    rows = [list(x) for x in full[lo:hi]]
    if gaps and len(rows) > 2 and rng.random() < 0.12:
        del rows[rng.randrange(1, len(rows) - 1)]
    return rows


def gen(tier, rng):
    for c in FIXED:
        yield c
    n, maxlen = (160, 7) if tier == "quick" else (900, 32)
    for _ in range(n):
        na = rng.randint(1, 4)
        authors = sorted(rng.sample(range(0, 6), na))
        logs, repa, repb = [], [], []
        for a in authors:
            ls = sorted(rng.sample(range(0, 3), rng.randint(1, 2)))
            logs.append([a, ls])
            for l in ls:
                full = [[s, rng.randint(480, 1200)] for s in range(rng.randint(0, maxlen))]
                mode = rng.random()
                wa, wb = window(rng, full), window(rng, full)
                if mode < 0.15:
                    wb = [list(x) for x in wa]
                if wa:
                    repa.append([a, l, wa])
                if wb:
                    repb.append([a, l, wb])
        case = {"logs": logs, "repa": repa, "repb": repb}
        if rng.random() < 0.2:
            lb = []
            for a, ls in logs:
                r = rng.random()
                if r < 0.25:
                    continue
                if r < 0.5 and len(ls) > 1:
                    lb.append([a, ls[:1]])
                else:
                    lb.append([a, ls])
            case["logsb"] = lb
        yield case


def logs_b(case):
    return case["logsb"] if case.get("logsb") is not None else case["logs"]


def harness_line(case):
    s = "logs=%s repa=%s repb=%s" % (L.h_logs(case["logs"]), L.h_rep(case["repa"]), L.h_rep(case["repb"]))
    if case.get("logsb") is not None:
        s += " logsb=%s" % L.h_logs(case["logsb"])
    return s


def coq_model(case):
    return "model_line %s %s %s %s" % (L.g_logs(case["logs"]), L.g_logs(logs_b(case)), L.g_replica(case["repa"]), L.g_replica(case["repb"]))


def fields(impl):
    parts = [p.strip() for p in impl.split("|")]
    d = {"status": parts[0]}
    for p in parts[1:]:
        k, _, v = p.partition(" ")
        d[k] = v.strip()
    return d


def g_h3(text):
    out = []
    for t in text.split(","):
        if not t:
            continue
        k, h = t.split("=")
        a, l = k.split(".")
        out.append("(%d,%d,%d)" % (int(a), int(l), int(h)))
    return "([" + ";".join(out) + "])%N"


def coq_oracle(case, impl):
    f = fields(impl)
    if f["status"] != "done":
        return "false"
    same = "true" if logs_b(case) == case["logs"] else "false"
    return "check %s %s %s %s %s %s %s %s %s %s %s" % (
        L.g_logs(case["logs"]), L.g_logs(logs_b(case)), L.g_replica(case["repa"]), L.g_replica(case["repb"]), same,
        L.parse_msgs(f.get("A", "")), L.parse_msgs(f.get("B", "")), L.parse_ops(f.get("EA", "")), L.parse_ops(f.get("EB", "")),
        g_h3(f.get("HA", "")), g_h3(f.get("HB", "")))


def agree(case, impl, model):
    return " ".join(impl.split()) == " ".join(model.split())


def nontrivial(case, impl):
    return impl.startswith("done") and " O" in impl


def shrink(case):
    for side in ("repa", "repb"):
        rep = case[side]
        for i in range(len(rep)):
            yield dict(case, **{side: rep[:i] + rep[i + 1:]})
            a, l, rows = rep[i]
            if len(rows) > 1:
                yield dict(case, **{side: rep[:i] + [[a, l, rows[:-1]]] + rep[i + 1:]})
                yield dict(case, **{side: rep[:i] + [[a, l, rows[1:]]] + rep[i + 1:]})
    if len(case["logs"]) > 1 and case.get("logsb") is None:
        for i in range(len(case["logs"])):
            yield dict(case, logs=case["logs"][:i] + case["logs"][i + 1:])
    if case.get("logsb") is not None:
        yield {k: v for k, v in case.items() if k != "logsb"}


def distribution(cases, impl):
    d = {"both_send": 0, "one_sends": 0, "none_sends": 0, "pruned_logs": 0, "gaps": 0, "different_cfg": 0, "max_ops_one_side": 0}
    for i, c in enumerate(cases):
        f = fields(impl.get(i, "x"))
        na = len([t for t in f.get("A", "").split() if t.startswith("O")])
        nb = len([t for t in f.get("B", "").split() if t.startswith("O")])
        d["both_send" if na and nb else ("one_sends" if na or nb else "none_sends")] += 1
        d["max_ops_one_side"] = max(d["max_ops_one_side"], na, nb)
        if c.get("logsb") is not None:
            d["different_cfg"] += 1
        for side in ("repa", "repb"):
            for a, l, rows in c[side]:
                if rows and rows[0][0] > 0:
                    d["pruned_logs"] += 1
                if rows and rows[-1][0] - rows[0][0] + 1 != len(rows):
                    d["gaps"] += 1
    return d
