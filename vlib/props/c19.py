"""C19 — Log sync delivers exactly the missing operations; both replicas converge."""
from . import _logsync as L

ID = "C19"
HARNESS_PKG = "h_logsync"
HARNESS_ARGS = ["c19"]
COQ_IMPORTS = "From PV Require Import Model.Dedup Model.LogSync Lib.LogSyncShow Oracle.C20 Oracle.C19."
COQ_SHARD = 12
HARNESS_PROCS = 8
HARNESS_TIMEOUT = 1500
TECHNIQUE = ("Coq proofs over the LogSync state-machine model: script (what a side sends is a function of its replica and the accepted Have, "
             "for every interleaving), sent_ops_exact (= rows above the peer's height per configured log), joint invariant of two machines "
             "over FIFO queues for every schedule (received_exact, termination via deadlock freedom + decreasing measure), converge "
             "(heights after ingest = pointwise max); + differential correspondence with two real LogSync::run sessions over in-memory channels "
             "(unbounded, and futures::mpsc::channel(c) for small c), incl. ranges of several hundred entries")
LEVEL_TEXT = ("Theorems C19_script / C19_script_interleaving_independent / C19_sent_ops_exact / C19_received_exact(_wf) / C19_converge / "
              "C19_termination are proved in Coq, closed under the global context, for all replicas (any authors/logs/heights/pruned "
              "prefixes/gaps), all configurations and all schedules of the joint model; no bound. The model is tied to "
              "p2panda-sync/src/protocols/log_sync.rs, p2panda-core/src/logs.rs and the SQLite log store on every run: random replica "
              "pairs (overlapping prefixes, pruned logs, gaps, empty sides, differing configurations, ranges of 127..640 entries, transports "
              "channel(c) with c = 1..16 where C21_outside_known guarantees termination) are put into two SqliteStores, two real "
              "sessions run against each other, and sink messages, OperationReceived events and heights after ingest are compared with the "
              "model's line; the oracle (expected_ops / grammar / pointwise-max heights) is evaluated on the implementation's observation.")
LEVEL_NOTE = ("Hypotheses of the theorems: the store does not change during the session (C20 covers changes); row sizes > 0; operation ids "
              "pairwise distinct over what the two sides send (received_exact; derived in received_exact_wf from: id = function of "
              "(author, log, seq) injective on the rows of both replicas, unique seqs per log, every author/log configured once); "
              "NoDup authors in the configuration (converge). Ingest of "
              "received operations is modelled as adding the row (C01/C03 are about the ingest pipeline). Trusted: Coq kernel + vm_compute; "
              "hand-written model; SQLite; harness/python glue. Correspondence is differential testing.")
ASSUMPTIONS = ["static stores during the session; positive row sizes; distinct operation ids; every configured log list non-empty",
               "both replicas hold the same operation for the same (author, log, seq) (no forks) - generated that way"]
TRUSTED = ["modelled not verified: SQLite query semantics, CBOR decoding, ingest accepting received operations, tokio select! fairness"]
RULE = ("quick: 160 random replica pairs drawn from a common universe of logs (1-4 authors x 1-2 logs, per side a window [lo..hi] of each log: "
        "absent / pruned prefix / behind / ahead / equal, 12% gaps; 20% of the cases with a different configuration on side B) + 8 fixed "
        "boundary cases; thorough: 900 pairs with logs up to 32 rows. + long ranges: one range to send of 127/128/129/130/256/257/290/380/500 "
        "entries (around the multiples of 64/128/256 a batching sender would use), two long ranges of one author, both sides sending a long "
        "range, a gap inside, logs behind a pruned prefix longer than 64/128 (13 in quick, ~110 in thorough up to 640 entries). + small transports: "
        "the same observation over futures::mpsc::channel(c), c in {1,2,3,4,8,16}, only where C21_outside_known guarantees termination (c >= 1, one "
        "side's operations + Done <= c): the small side at the boundary c-1 operations, the large side c+1 .. 65 operations, both orientations, "
        "shared prefixes, two logs (39 in quick incl. 3 vs 40 over channel(8), 226 in thorough). "
        "non-trivial = the session completed and at least one operation was sent")

FIXED = [
    {"logs": [], "repa": [], "repb": []},
    {"logs": [[0, [0]]], "repa": [], "repb": []},
    {"logs": [[0, [0]]], "repa": [[0, 0, [[0, 500], [1, 510], [2, 520]]]], "repb": []},
    {"logs": [[0, [0]]], "repa": [[0, 0, [[0, 500], [1, 510], [2, 520]]]], "repb": [[0, 0, [[0, 500]]]]},
    {"logs": [[0, [0]]], "repa": [[0, 0, [[2, 520], [3, 530]]]], "repb": [[0, 0, [[0, 500], [1, 510]]]]},
    {"logs": [[0, [0]], [1, [0, 1]]], "repa": [[0, 0, [[0, 500]]], [1, 1, [[0, 700], [1, 710]]]], "repb": [[1, 0, [[4, 640]]], [1, 1, [[0, 700]]]]},
    {"logs": [[0, [0]]], "logsb": [[1, [0]]], "repa": [[0, 0, [[0, 500]]]], "repb": [[1, 0, [[0, 600]]], [0, 0, [[0, 500], [1, 510]]]]},
    {"logs": [[0, [0, 1]], [2, [0]]], "repa": [[0, 0, [[0, 400], [1, 410]]], [0, 1, [[0, 420]]], [2, 0, [[0, 430]]]],
     "repb": [[0, 0, [[0, 400], [1, 410]]], [0, 1, [[0, 420]]], [2, 0, [[0, 430]]]]},
]


# ------------------------------------------------------------------------------------------------
# compact rendering of long logs (python glue only: the Coq side expands `rrun a l z s n` to the
# explicit rows, the harness expands `lo-hi/size`)
# ------------------------------------------------------------------------------------------------

def runs(rows):
    """[[seq, size], ...] -> [(lo, n, size)] maximal runs of consecutive seqs of one size."""
    out = []
    for s, z in rows:
        if out and out[-1][0] + out[-1][1] == s and out[-1][2] == z:
            out[-1][1] += 1
        else:
            out.append([s, 1, z])
    return [tuple(r) for r in out]


def g_concat(parts):
    """parts: list of ("run", text) | ("one", text) -> Gallina list expression (List.app, no notation:
    the driver evaluates inside string_scope where `++` is string append)."""
    chunks, cur = [], []
    for kind, t in parts:
        if kind == "one":
            cur.append(t)
        else:
            if cur:
                chunks.append("[" + ";".join(cur) + "]")
                cur = []
            chunks.append(t)
    if cur or not chunks:
        chunks.append("[" + ";".join(cur) + "]")
    e = chunks[-1]
    for c in reversed(chunks[:-1]):
        e = "(List.app %s %s)" % (c, e)
    return e


def g_rows(a, l, rows):
    parts = []
    for lo, n, z in runs(rows):
        if n >= 4:
            parts.append(("run", "(rrun %d %d %d %d %d)" % (a, l, z, lo, n)))
        else:
            parts.extend(("one", "mkrow %d %d %d" % (s, L.op_id(a, l, s), z)) for s in range(lo, lo + n))
    return g_concat(parts)


def g_replica(rep):
    return "([" + ";".join("((%d,%d),%s)" % (a, l, g_rows(a, l, rows)) for a, l, rows in rep) + "])%N"


def h_rep(rep):
    out = []
    for a, l, rows in rep:
        if rows:
            out.append("%d.%d:%s" % (a, l, ",".join(("%d-%d/%d" % (lo, lo + n - 1, z)) if n >= 3 else
                                                    ",".join("%d/%d" % (s, z) for s in range(lo, lo + n))
                                                    for lo, n, z in runs(rows))))
    return ";".join(out) or "-"


def op_tokens(text, strip_o):
    """Harness operation tokens -> [(a, l, seq, size)] (None for a non-operation token when strip_o)."""
    out = []
    for t in text.split():
        if strip_o:
            if not t.startswith("O"):
                out.append(t)
                continue
            t = t[1:]
        key, z = t.split("/")
        a, l, q = (int(x) for x in key.split("."))
        out.append((a, l, q, int(z)))
    return out


def g_oplist(toks, run_fn, one_fmt, other):
    """Group consecutive operation tuples of one log / one size / consecutive seqs into runs."""
    parts, i = [], 0
    while i < len(toks):
        t = toks[i]
        if not isinstance(t, tuple):
            parts.append(("one", other(t)))
            i += 1
            continue
        j = i + 1
        while j < len(toks) and isinstance(toks[j], tuple) and toks[j][:2] == t[:2] and toks[j][3] == t[3] and toks[j][2] == t[2] + (j - i):
            j += 1
        if j - i >= 4:
            parts.append(("run", "(%s %d %d %d %d %d)" % (run_fn, t[0], t[1], t[3], t[2], j - i)))
        else:
            parts.extend(("one", one_fmt % (x[0], x[1], x[2], L.op_id(x[0], x[1], x[2]), x[3])) for x in toks[i:j])
        i = j
    return "(" + g_concat(parts) + ")%N"


def g_msgs(text):
    def other(t):
        if t.startswith("H["):
            return "Have []"
        if t.startswith("P"):
            o, b = t[1:].split(":")
            return "PreSync %d %d" % (int(o), int(b))
        if t == "D":
            return "Done"
        raise ValueError(t)
    return g_oplist(op_tokens(text, True), "msgrun", "Operation %d %d (mkrow %d %d %d)", other)


def g_ops(text):
    return g_oplist(op_tokens(text, False), "oprun", "(%d,%d,mkrow %d %d %d)", None)


# ------------------------------------------------------------------------------------------------
# long ranges (the sender may load a range in batches: 64 / 128 / 256 are the likely window sizes)
# ------------------------------------------------------------------------------------------------

def seg(lo, n, size=500, every=97):
    """rows lo..lo+n-1; the size changes every `every` rows so that a shifted or skipped row also
    shows in the byte totals of PreSync."""
    return [[s, size + 10 * ((s // every) % 7)] for s in range(lo, lo + n)]


def big(na=0, ka=0, loa=0, nb=0, kb=0, lob=0, extra=None, gap=None):
    """Author 0 / log 0 is A's long log: A holds seqs loa..loa+na-1, B the first ka of them (the range
    A sends has na-ka entries); author 1 / log 0 the same with the roles swapped."""
    repa, repb = [], []
    ra = seg(loa, na)
    if gap is not None and ra:
        ra = [r for r in ra if r[0] != loa + gap]
    if ra:
        repa.append([0, 0, ra])
    if ka:
        repb.append([0, 0, seg(loa, ka)])
    rb = seg(lob, nb, 640, 61)
    if kb:
        repa.append([1, 0, seg(lob, kb, 640, 61)])
    if rb:
        repb.append([1, 0, rb])
    logs = [[0, [0]], [1, [0]]]
    for side, a, l, lo, n in (extra or []):
        (repa if side == "a" else repb).append([a, l, seg(lo, n, 520, 53)])
        for al in logs:
            if al[0] == a and l not in al[1]:
                al[1] = sorted(al[1] + [l])
        if a not in [x[0] for x in logs]:
            logs.append([a, [l]])
    return {"logs": sorted(logs), "repa": sorted(repa), "repb": sorted(repb)}


BIG_QUICK = [
    big(na=127), big(na=128), big(na=129), big(na=130, ka=1), big(na=256), big(na=257, ka=1),
    big(na=200, loa=80),                                  # pruned prefix longer than a window of 64, empty peer
    big(na=300, ka=10, nb=150),                           # both sides send a long range
    big(na=500, nb=3),
    big(na=129, ka=0, extra=[("a", 0, 1, 0, 258), ("b", 0, 1, 0, 2)]),   # two long ranges of one author
    big(na=386, ka=100, gap=250, nb=5, kb=2),
    big(na=70, loa=130, nb=65, kb=0),                     # short logs behind a long pruned prefix
]


def big_cases(tier, rng):
    for c in BIG_QUICK:
        yield c
    if tier == "quick":
        n = rng.randint(129, 420)
        yield big(na=n, ka=rng.randint(0, n - 129), loa=rng.choice([0, rng.randint(1, 200)]), nb=rng.randint(0, 40))
        return
    for n in (63, 64, 65, 66, 127, 128, 129, 130, 131, 191, 192, 193, 255, 256, 257, 258, 300, 383, 384, 385, 500, 512, 513, 640):
        yield big(na=n)
        yield big(nb=n, kb=rng.choice([1, 2, 5]))
        yield big(na=n, loa=rng.choice([1, 63, 64, 65, 127, 128, 129, 200]), nb=rng.randint(0, 9))
    for _ in range(30):
        n, m = rng.randint(129, 500), rng.choice([0, 0, rng.randint(1, 300)])
        yield big(na=n, ka=rng.randint(0, n - 1), loa=rng.choice([0, 0, rng.randint(1, 300)]),
                  nb=m, kb=rng.randint(0, max(m - 1, 0)), lob=rng.choice([0, rng.randint(1, 150)]),
                  gap=rng.choice([None, rng.randint(1, n - 2)]),
                  extra=rng.choice([None, [("a", 0, 1, 0, rng.randint(100, 300))], [("b", 2, 0, rng.randint(0, 90), rng.randint(60, 200))]]))


# ------------------------------------------------------------------------------------------------
# small transports: `futures::mpsc::channel(c)`; only configurations in which C21_outside_known
# guarantees termination: c >= 1 and one side's sync-phase messages (operations + Done) fit into c
# ------------------------------------------------------------------------------------------------

def sends(rep_x, rep_y, logs):
    """Number of operations X sends to Y for one common configuration (python mirror of expected_ops,
    used only to place generated cases; the model line is the reference)."""
    dx, dy = L.rep_dict(rep_x), L.rep_dict(rep_y)
    n = 0
    for a, ls in logs:
        y_has_author = any(dy.get((a, l)) for l in ls)
        for l in ls:
            rx, ry = dx.get((a, l), []), dy.get((a, l), [])
            if not rx:
                continue
            if not y_has_author or not ry:
                n += len(rx)
            else:
                hy = max(s for s, _ in ry)
                n += len([1 for s, _ in rx if s > hy])
    return n


def msgs(case):
    a = sends(case["repa"], case["repb"], case["logs"])
    b = sends(case["repb"], case["repa"], case["logs"])
    return (a + 1 if a else 0), (b + 1 if b else 0)


def guaranteed(case):
    c = case.get("cap")
    if c is None:
        return True
    a, b = msgs(case)
    return case.get("logsb") is None and c >= 1 and (a <= c or b <= c)


def capped(c, small, large, small_is_a=True, shared_small=0, shared_large=0, two_logs=False):
    """The small side owns author 0 (`small` operations the other lacks), the large side author 1."""
    rs, rl = [], []
    if small + shared_small:
        rs.append([0, 0, seg(0, small + shared_small, 500, 5)])
    if shared_small:
        rl.append([0, 0, seg(0, shared_small, 500, 5)])
    n1 = large + shared_large
    if two_logs and large > 2:
        h = large // 2
        rl.append([1, 0, seg(0, h + shared_large, 600, 7)])
        rl.append([1, 1, seg(0, large - h, 610, 7)])
    elif n1:
        rl.append([1, 0, seg(0, n1, 600, 7)])
    if shared_large:
        rs.append([1, 0, seg(0, shared_large, 600, 7)])
    logs = [[0, [0]], [1, [0, 1] if two_logs else [0]]]
    ra, rb = (rs, rl) if small_is_a else (rl, rs)
    return {"logs": logs, "repa": sorted(ra), "repb": sorted(rb), "cap": c, "ms": 6000}


def cap_cases(tier, rng):
    yield capped(8, 3, 40)                     # the shape of the demonstration: 3 operations vs 40 over channel(8)
    yield capped(8, 3, 40, small_is_a=False)
    caps = (1, 2, 3, 4, 8, 16)
    reps = 1 if tier == "quick" else 6
    for _ in range(reps):
        for c in caps:
            k = c - 1                              # the largest small side that still fits: k operations + Done = c
            yield capped(c, k, c + 1 + rng.randint(0, 3), small_is_a=rng.random() < 0.5)
            yield capped(c, k, 40 + rng.randint(0, 25), small_is_a=True, shared_large=rng.choice([0, 2]))
            yield capped(c, k, 3 * c + 7, small_is_a=False, shared_small=rng.choice([0, 1, 3]))
            yield capped(c, rng.randint(0, k), 2 * c + rng.randint(2, 30), small_is_a=rng.random() < 0.5, two_logs=True)
            yield capped(c, max(k - 1, 0), rng.randint(c + 1, 4 * c + 8), small_is_a=rng.random() < 0.5,
                         shared_small=rng.choice([0, 2]), shared_large=rng.choice([0, 1, 4]), two_logs=rng.random() < 0.3)
            yield capped(c, rng.randint(0, k), rng.randint(0, c - 1), small_is_a=rng.random() < 0.5)   # both fit
    if tier != "quick":
        for c in (1, 2, 4, 8):                     # a long range over a small transport
            yield dict(big(na=129 + c, nb=c - 1), cap=c, ms=6000)
            yield dict(big(nb=257, kb=1, na=c - 1), cap=c, ms=6000)
    else:
        yield dict(big(na=131, nb=3), cap=4, ms=6000)


def window(rng, full, gaps=True):
    """A side's view of a full log (list of [seq, size]): nothing, or a window lo..hi, maybe with a gap."""
    n = len(full)
    r = rng.random()
    if n == 0 or r < 0.2:
        return []
    hi = rng.randint(1, n)
    lo = 0 if rng.random() < 0.6 else rng.randint(0, hi - 1)
    rows = [list(x) for x in full[lo:hi]]
    if gaps and len(rows) > 2 and rng.random() < 0.12:
        del rows[rng.randrange(1, len(rows) - 1)]
    return rows


def gen(tier, rng):
    for c in FIXED:
        yield c
    # the long-range and small-transport cases are spread over the random ones (the long ones cost
    # seconds each in coqtop; the driver shards consecutive cases)
    bigs, special = list(big_cases(tier, rng)), list(cap_cases(tier, rng))
    step = max(1, len(special) // max(len(bigs), 1))
    for i, c in enumerate(bigs):
        special.insert(min(i * (step + 1), len(special)), c)
    for c in special:
        assert guaranteed(c), c
    n, maxlen = (160, 7) if tier == "quick" else (900, 32)
    every = max(1, n // max(len(special), 1))
    for k in range(n):
        if k % every == 0 and special:
            yield special.pop(0)
            if len(special) > n - k:
                yield special.pop(0)
        na = rng.randint(1, 4)
        authors = sorted(rng.sample(range(0, 6), na))
        logs, repa, repb = [], [], []
        for a in authors:
            ls = sorted(rng.sample(range(0, 3), rng.randint(1, 2)))
            logs.append([a, ls])
            for l in ls:
                full = [[s, rng.randint(480, 1200)] for s in range(rng.randint(0, maxlen))]
                mode = rng.random()
                wa, wb = window(rng, full), window(rng, full)
                if mode < 0.15:
                    wb = [list(x) for x in wa]
                if wa:
                    repa.append([a, l, wa])
                if wb:
                    repb.append([a, l, wb])
        case = {"logs": logs, "repa": repa, "repb": repb}
        if rng.random() < 0.2:
            lb = []
            for a, ls in logs:
                r = rng.random()
                if r < 0.25:
                    continue
                if r < 0.5 and len(ls) > 1:
                    lb.append([a, ls[:1]])
                else:
                    lb.append([a, ls])
            case["logsb"] = lb
        yield case
    for c in special:
        yield c


def logs_b(case):
    return case["logsb"] if case.get("logsb") is not None else case["logs"]


def harness_line(case):
    s = "logs=%s repa=%s repb=%s" % (L.h_logs(case["logs"]), h_rep(case["repa"]), h_rep(case["repb"]))
    if case.get("logsb") is not None:
        s += " logsb=%s" % L.h_logs(case["logsb"])
    if case.get("cap") is not None:
        s += " cap=%d ms=%d" % (case["cap"], case.get("ms", 6000))
    return s


def coq_model(case):
    cbuf = "None" if case.get("cap") is None else "(Some %d%%nat)" % case["cap"]
    return "model_line_c %s %s %s %s %s" % (cbuf, L.g_logs(case["logs"]), L.g_logs(logs_b(case)), g_replica(case["repa"]), g_replica(case["repb"]))


def fields(impl):
    parts = [p.strip() for p in impl.split("|")]
    d = {"status": parts[0]}
    for p in parts[1:]:
        k, _, v = p.partition(" ")
        d[k] = v.strip()
    return d


def g_h3(text):
    out = []
    for t in text.split(","):
        if not t:
            continue
        k, h = t.split("=")
        a, l = k.split(".")
        out.append("(%d,%d,%d)" % (int(a), int(l), int(h)))
    return "([" + ";".join(out) + "])%N"


def coq_oracle(case, impl):
    f = fields(impl)
    if f["status"] != "done":
        return "false"
    same = "true" if logs_b(case) == case["logs"] else "false"
    return "check %s %s %s %s %s %s %s %s %s %s %s" % (
        L.g_logs(case["logs"]), L.g_logs(logs_b(case)), g_replica(case["repa"]), g_replica(case["repb"]), same,
        g_msgs(f.get("A", "")), g_msgs(f.get("B", "")), g_ops(f.get("EA", "")), g_ops(f.get("EB", "")),
        g_h3(f.get("HA", "")), g_h3(f.get("HB", "")))


def agree(case, impl, model):
    return " ".join(impl.split()) == " ".join(model.split())


def nontrivial(case, impl):
    return impl.startswith("done") and " O" in impl


def shrink(case):
    for side in ("repa", "repb"):
        rep = case[side]
        for i in range(len(rep)):
            yield dict(case, **{side: rep[:i] + rep[i + 1:]})
            a, l, rows = rep[i]
            if len(rows) > 1:
                yield dict(case, **{side: rep[:i] + [[a, l, rows[:-1]]] + rep[i + 1:]})
                yield dict(case, **{side: rep[:i] + [[a, l, rows[1:]]] + rep[i + 1:]})
    if len(case["logs"]) > 1 and case.get("logsb") is None:
        for i in range(len(case["logs"])):
            yield dict(case, logs=case["logs"][:i] + case["logs"][i + 1:])
    if case.get("logsb") is not None:
        yield {k: v for k, v in case.items() if k != "logsb"}


def distribution(cases, impl):
    d = {"both_send": 0, "one_sends": 0, "none_sends": 0, "pruned_logs": 0, "gaps": 0, "different_cfg": 0, "max_ops_one_side": 0,
         "range_over_128": 0, "small_transport": 0, "small_transport_both_send": 0, "by_cap": {}}
    for i, c in enumerate(cases):
        f = fields(impl.get(i, "x"))
        na = len([t for t in f.get("A", "").split() if t.startswith("O")])
        nb = len([t for t in f.get("B", "").split() if t.startswith("O")])
        d["both_send" if na and nb else ("one_sends" if na or nb else "none_sends")] += 1
        d["max_ops_one_side"] = max(d["max_ops_one_side"], na, nb)
        if max(na, nb) > 128:
            d["range_over_128"] += 1
        if c.get("cap") is not None:
            d["small_transport"] += 1
            d["by_cap"][str(c["cap"])] = d["by_cap"].get(str(c["cap"]), 0) + 1
            if na and nb:
                d["small_transport_both_send"] += 1
        if c.get("logsb") is not None:
            d["different_cfg"] += 1
        for side in ("repa", "repb"):
            for a, l, rows in c[side]:
                if rows and rows[0][0] > 0:
                    d["pruned_logs"] += 1
                if rows and rows[-1][0] - rows[0][0] + 1 != len(rows):
                    d["gaps"] += 1
    return d
