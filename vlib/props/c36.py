"""C36 — Latest group secret is chosen deterministically and new secrets are newer."""
import hashlib
import itertools

ID = "C36"
HARNESS_PKG = "h_enc_a"
HARNESS_ARGS = ["c36"]
COQ_IMPORTS = "From PV Require Import Model.SecretBundle Oracle.C36."
TECHNIQUE = ("Coq proof (loop invariant of find_latest = lexicographic maximum; set-extensionality => independence of iteration, insertion and "
             "merge order; arithmetic of generate for every clock reading) + differential correspondence of the Gallina model with the real SecretBundle")
LEVEL_TEXT = ("Proved in Coq without size bounds: C36_latest_is_lex_max / C36_latest_none_only_if_all_zero / C36_find_latest_iteration_order_free "
              "(find_latest over the entries in any order returns the (timestamp,id)-maximum), C36_operations_keep_wf + C36_state_latest_is_lex_max "
              "(every state produced by the operations records that maximum, for every hash-map iteration order), C36_order_independent_outside_known "
              "(bundles built from the same set of secrets by insertions and merges in any order/shape have the same latest), "
              "C36_generated_strictly_later_outside_known + C36_generated_becomes_latest (for every clock reading the generated secret is strictly later "
              "than everything in the bundle and is the latest once inserted, if the latest timestamp is below u64::MAX). Two refuted corners are proved "
              "as witnesses and reported as open known findings: C36_generated_strictly_later_refuted (latest timestamp u64::MAX: `latest + 1` overflows) "
              "and C36_order_independent_refuted (the same key bytes with two different timestamps: HashMap::insert replaces, last one wins). "
              "The model is tied to group_secret.rs on every run: real SHA-256 ids, real HashMap iteration, real clock.")
LEVEL_NOTE = ("Trusted: Coq kernel + vm_compute; hand-written model; SHA-256 ids taken as given (their order is checked by the harness against python's hashlib); "
              "the clock is an arbitrary input in the theorems and the real clock in the runs (assumed between 1.6e9 and 2^41 seconds); harness/python glue. "
              "Correspondence is differential testing.")
ASSUMPTIONS = ["a HashMap iterates over exactly its entries (order arbitrary)",
               "order independence: the inserted secrets form a set (one timestamp per id); strictly-later: latest timestamp < u64::MAX — both corners are open known findings",
               "latest = None for a non-empty bundle only if every id is 0^32 with timestamp 0 (SHA-256 preimage of zero)",
               "correspondence runs: real clock between 1.6e9 s and 2^41 s; debug build (overflow panics)"]
TRUSTED = ["modelled not verified: SHA-256, Rng, HashMap, SystemTime"]
RULE = ("quick: for every multiset of <= 4 secrets with timestamps from a colliding palette, ALL insertion orders as separate bundles (final latest must coincide), "
        "random merge trees / from_secrets / duplicate insertions over <= 6 secrets, random scripts with removals, generate with the latest in the past and in "
        "the future of the real clock (wall clock behind), repeated generate, timestamps at u64::MAX-1 / u64::MAX, conflicting duplicates; thorough: 5 secrets "
        "all 120 orders, more random. non-trivial = some observed bundle holds two secrets with the same timestamp, or the script generates a secret")
U64MAX = 18446744073709551615
FUT = 1 << 42
COQ_SHARD = 40


def _kid(seed):
    return hashlib.sha256(bytes([0xA5] * 24) + seed.to_bytes(8, "big")).digest()


def _ranks(pool):
    seeds = sorted({s for s, _ in pool}, key=_kid)
    r = {s: i + 1 for i, s in enumerate(seeds)}
    return [r[s] for s, _ in pool]


def _perm_scripts(n):
    return [["n"] + ["i:%d" % k for k in p] for p in itertools.permutations(range(n))]


def _tree(rng, idxs):
    """A random way to build a bundle holding exactly the secrets idxs (RPN ops)."""
    idxs = list(idxs)
    rng.shuffle(idxs)
    if len(idxs) <= 1 or rng.random() < 0.3:
        mode = rng.random()
        if mode < 0.5:
            ops = ["n"] + ["i:%d" % k for k in idxs]
        else:
            ops = ["f:" + ",".join(map(str, idxs))] if idxs else ["n"]
        if idxs and rng.random() < 0.3:   # a true duplicate insertion (idempotent)
            ops.append("i:%d" % rng.choice(idxs))
        return ops
    cut = rng.randint(1, len(idxs) - 1)
    return _tree(rng, idxs[:cut]) + _tree(rng, idxs[cut:]) + ["x"]


PALETTE = [0, 1, 5, 5, 5, 234, 234, 1599999999, FUT, FUT, FUT + 16, FUT + 32, U64MAX - 3]


def gen(tier, rng):
    quick = tier == "quick"
    # (A) all insertion orders, colliding timestamps
    pal = [0, 5, 5, FUT]
    for n in range(1, 5 if quick else 6):
        combos = list(itertools.combinations_with_replacement(sorted(set(pal + [7])), n))
        if n == 5:
            combos = [c for c in combos if len(set(c)) <= 3][::4]
        for tss in combos:
            seeds = list(range(100 + n * 10, 100 + n * 10 + n))
            rng.shuffle(seeds)
            yield {"pool": [[s, t] for s, t in zip(seeds, tss)], "scripts": _perm_scripts(n), "same": True}
    # (B) merge shapes
    for _ in range(250 if quick else 2500):
        n = rng.randint(2, 6)
        pool = [[rng.randrange(1, 10 ** 6), rng.choice(PALETTE)] for _ in range(n)]
        if len({s for s, _ in pool}) < n:
            continue
        yield {"pool": pool, "scripts": [_tree(rng, range(n)) for _ in range(rng.randint(2, 5))], "same": True}
    # (G) removals
    for _ in range(150 if quick else 1500):
        n = rng.randint(2, 6)
        pool = [[1000 + i, rng.choice(PALETTE)] for i in range(n)]
        ops = _tree(rng, range(n))
        for _ in range(rng.randint(1, 5)):
            ops.append(rng.choice(["r:%d", "i:%d", "r:%d"]) % rng.randrange(n))
        yield {"pool": pool, "scripts": [ops], "same": False}
    # (D) generate: latest in the past / in the future of the wall clock, repeated, then more inserts
    for _ in range(200 if quick else 2000):
        n = rng.randint(0, 5)
        future = rng.random() < 0.6
        pal = [0, 5, 234, 1599999999] + ([FUT, FUT + 16, FUT + 48, FUT + 48, 1 << 62, U64MAX - 9] if future else [])
        pool = [[2000 + i, rng.choice(pal)] for i in range(n)]
        k = rng.randint(0, n)
        ops = _tree(rng, range(k)) if k else ["n"]
        rest = list(range(k, n))
        gens = 0
        for _ in range(rng.randint(1, 6)):
            c = rng.random()
            if c < 0.5 and gens < 4:
                ops.append("g")
                gens += 1
            elif rest and c < 0.8:
                ops.append("i:%d" % rest.pop())
            elif n:
                ops.append("r:%d" % rng.randrange(n))
        if gens == 0:
            ops.append("g")
        yield {"pool": pool, "scripts": [ops], "same": False}
    # (E) u64 boundary
    yield {"pool": [[31, U64MAX - 1]], "scripts": [["n", "i:0", "g"]], "same": False}
    yield {"pool": [[31, U64MAX - 2], [32, 5]], "scripts": [["f:0,1", "g", "g"]], "same": False}
    yield {"pool": [[31, U64MAX]], "scripts": [["n", "i:0", "g"]], "same": False}
    yield {"pool": [[31, U64MAX - 1], [33, 7]], "scripts": [["f:1,0", "g", "g"]], "same": False}
    yield {"pool": [[31, U64MAX], [34, U64MAX]], "scripts": [["f:1,0", "r:0", "g"]], "same": False}
    # (F) the same key bytes with two different timestamps
    for tss in ([5, 3, 1], [FUT, 7, 7], [9, 9, 2]):
        pool = [[41, tss[0]], [42, tss[1]], [41, tss[2]]]
        yield {"pool": pool, "scripts": _perm_scripts(3), "same": True}
    yield {"pool": [[41, 5], [42, 3], [41, 1]], "scripts": [["f:0,1", "f:2", "x"], ["f:2", "f:0,1", "x"]], "same": True}


def harness_line(case):
    rk = _ranks(case["pool"])
    pool = ",".join("%d:%d:%d" % (s, r, t) for (s, t), r in zip(case["pool"], rk))
    return pool + " ; " + " ; ".join(" ".join(sc) for sc in case["scripts"])


def _sec(case, rk, k):
    return "(%d%%N,%d%%N)" % (rk[k], case["pool"][k][1])


def _ops(case):
    rk = _ranks(case["pool"])
    out = []
    for sc in case["scripts"]:
        ops = []
        for op in sc:
            kind, _, arg = op.partition(":")
            idx = [int(x) for x in arg.split(",") if x]
            if kind == "n":
                ops.append("ONew")
            elif kind == "f":
                ops.append("OFrom [%s]" % ";".join(_sec(case, rk, k) for k in idx))
            elif kind == "i":
                ops.append("OIns %s" % _sec(case, rk, idx[0]))
            elif kind == "x":
                ops.append("OExt")
            elif kind == "r":
                ops.append("ORem %d%%N" % rk[idx[0]])
            elif kind == "g":
                ops.append("OGen")
        out.append("[" + ";".join(ops) + "]")
    return "[" + ";".join(out) + "]"


def coq_model(case):
    return "model_line %s" % _ops(case)


NOWC = 2199023255552
GENBASE = 1000000


def _parse_obs(tok):
    """-> None for a panic, else (latest id or None, [(id, ts)])."""
    if tok == "X":
        return None
    lat, _, content = tok.partition("/")

    def pid(s):
        return GENBASE + int(s[1:]) if s.startswith("g") else int(s)

    def pts(s):
        return NOWC + int(s[2:]) if s.startswith("N+") else int(s)
    ents = []
    for e in content.split(","):
        if e:
            i, _, t = e.partition("@")
            ents.append((pid(i), pts(t)))
    return (None if lat == "-" else pid(lat), ents)


def _parse(impl):
    return [[_parse_obs(t) for t in sc.split()] for sc in impl.split("||")]


def coq_oracle(case, impl):
    scripts = []
    for sc in _parse(impl):
        obs = []
        for o in sc:
            if o is None:
                obs.append("None")
            else:
                lat = "None" if o[0] is None else "(Some %d%%N)" % o[0]
                obs.append("(Some (%s, [%s]))" % (lat, ";".join("(%d%%N,%d%%N)" % e for e in o[1])))
        scripts.append("[" + ";".join(obs) + "]")
    return "check %s %s [%s]" % ("true" if case["same"] else "false", _ops(case), ";".join(scripts))


def nontrivial(case, impl):
    if any("g" in sc for sc in case["scripts"]):
        return True
    try:
        for sc in _parse(impl):
            for o in sc:
                if o and len({t for _, t in o[1]}) < len(o[1]):
                    return True
    except Exception:
        return False
    return False


def _is_max(o):
    lat, ents = o
    if lat is None:
        return all(e == (0, 0) for e in ents)
    m = [e for e in ents if e[0] == lat]
    return len(m) == 1 and all((t, i) <= (m[0][1], m[0][0]) for i, t in ents)


def known(case, impl):
    try:
        obs = _parse(impl)
    except Exception:
        return None
    # class 1: generate on a bundle whose latest timestamp is u64::MAX (and nothing else wrong)
    panics = 0
    for sc, ops in zip(obs, case["scripts"]):
        for k, o in enumerate(sc):
            if o is None:
                prev = sc[k - 1] if k > 0 else None
                if ops[k] != "g" or not prev or prev[0] is None:
                    return None
                if dict(prev[1]).get(prev[0]) != U64MAX:
                    return None
                panics += 1
    if panics:
        return "generate_overflow_at_u64_max"
    # class 2: the same key bytes inserted with two different timestamps; every single bundle is
    # still consistent with its own content, only the final latest differs between the orders
    seeds = {}
    for s, t in case["pool"]:
        seeds.setdefault(s, set()).add(t)
    if case["same"] and any(len(v) > 1 for v in seeds.values()):
        if all(o is not None and _is_max(o) for sc in obs for o in sc):
            return "conflicting_duplicate_timestamps"
    return None


def shrink(case):
    for i in range(len(case["scripts"])):
        if len(case["scripts"]) > 1:
            yield {"pool": case["pool"], "scripts": case["scripts"][:i] + case["scripts"][i + 1:], "same": case["same"]}
    if not case["same"]:
        for si, sc in enumerate(case["scripts"]):
            for i in range(1, len(sc)):
                if sc[i] != "x":
                    yield {"pool": case["pool"], "scripts": case["scripts"][:si] + [sc[:i] + sc[i + 1:]] + case["scripts"][si + 1:], "same": False}


def distribution(cases, impl):
    ops = {}
    for c in cases:
        for sc in c["scripts"]:
            for o in sc:
                k = o.partition(":")[0]
                ops[k] = ops.get(k, 0) + 1
    return {"bundles_built": sum(len(c["scripts"]) for c in cases), "op_kinds": ops,
            "cases_all_orders_or_merge_shapes": sum(1 for c in cases if c["same"]),
            "cases_with_generate": sum(1 for c in cases if any("g" in sc for sc in c["scripts"])),
            "cases_with_future_timestamps": sum(1 for c in cases if any(t >= FUT for _, t in c["pool"])),
            "panics_observed": sum(1 for v in impl.values() if " X" in " " + v)}
