"""C27 — Address book keeps the newest authentic transport info per node."""
import itertools

ID = "C27"
HARNESS_PKG = "h_net_b"
HARNESS_ARGS = ["c27"]
COQ_IMPORTS = "From PV Require Import Model.AddressBook Oracle.C27."
TECHNIQUE = ("Coq proof (fold of update_transports = newest authentic record; invariant 'every stored record is authentic' over "
             "arbitrary actor operation sequences; permutation invariance) + differential correspondence of the Gallina model with "
             "the real NodeInfo::update_transports and the real address-book actor (in-memory SQLite) on records with real ed25519 signatures")
LEVEL_TEXT = ("Theorems C27_stored_is_max_authentic / C27_forged_never_stored / C27_arrival_order_irrelevant (one node, any number of "
              "records, any order), C27_book_stored_is_newest / C27_book_order_irrelevant / C27_book_never_stores_forged (the actor, "
              "any number of nodes, any interleaving, local overwrites included for the last one) are proved in Coq for every "
              "signature type and verification function; C27_stored_signed_by_node adds the ideal-signature reading. The model is "
              "tied to p2panda-net/src/addrs.rs and address_book/actor.rs on every run: the same scenarios (signed / forged / "
              "tampered / mismatched / trusted records, all arrival orders of up to 4 records, random interleavings over 2-3 nodes "
              "through the real actor) are executed by the implementation and by the model, and the oracle (newest authentic since "
              "the last local overwrite) is evaluated on the implementation's answers and final book.")
LEVEL_NOTE = ("Trusted: Coq kernel + vm_compute; hand-written model; ed25519 / CBOR payload encoding idealised as a symbolic signature "
              "(signer, signed payload); SQLite upsert/round trip and the actor mailbox order are modelled, exercised only by the "
              "correspondence runs. InsertNodeInfo is a documented local overwrite: lemma insert_node_info_overwrites, not part of "
              "the 'records arriving' claim.")
ASSUMPTIONS = ["ideal signatures: a signature verifies for (node, payload) iff the node's key produced it over exactly that payload (section hypothesis verify_ideal, only for C27_stored_signed_by_node)",
               "order independence needs pairwise distinct timestamps among the authentic records (the property's own guard); ties keep the first arrival",
               "the address-book actor handles one message at a time in arrival order"]
TRUSTED = ["modelled not verified: ed25519-dalek verification, CBOR encoding of UnsignedTransportInfo, SQLite/sqlx row upsert and NodeInfo CBOR round trip, ractor mailbox"]
RULE = ("quick: direct mode (NodeInfo::update_transports) — 14 record sets of 4 records (one of each class: authentic newer/older, forged, "
        "tampered timestamp/addresses, trusted matching/mismatching/empty) in all 24 arrival orders + 60 random sets of 5 in 4 random orders; "
        "actor mode — 260 random interleavings (<= 9 calls, 2-3 nodes, InsertTransportInfo with occasional InsertNodeInfo) on the real actor. "
        "thorough: 60 sets x 24 orders, 300 sets of 5 x 12 orders, 2500 actor scenarios (<= 14 calls). Timestamps from a small domain "
        "(distinct, with deliberate ties in 1/5 of the sets) plus values near 2^63 and 2^64-1. "
        "both tiers additionally: forged address lists (signature + timestamp of an authentic record kept; attacker address of the same "
        "transport type inserted in front / behind / in the middle, two inserted, address duplicated, list reordered, one replaced, one "
        "dropped) x signed lists of 1-3 addresses x 3 attacker address kinds, each next to an older authentic record and the authentic "
        "twin, forged arriving first / between / last (thorough: all 6 orders), alone, and through the actor; the same class and authentic "
        "multi-address records are mixed into the random sets. "
        "non-trivial = at least one rejected and at least two accepted records, one of which replaced an older one or lost against a newer one")

U64 = 2 ** 64 - 1


def _ts_pool(rng, n, ties):
    pool = set()
    dom = [(p, l) for p in range(4) for l in range(3)] + [(2 ** 63, 0), (2 ** 63, 1), (U64, 0), (U64, U64), (0, U64)]
    while len(pool) < n:
        pool.add(rng.choice(dom))
    out = list(pool)
    rng.shuffle(out)
    if ties and n >= 2:
        out[1] = out[0]
    return out


def _rec(rng, kind, node, nkeys, ts, port):
    others = [k for k in range(nkeys) if k != node]
    other = rng.choice(others) if others else node
    own = [[node, port]]
    if kind == "auth":
        a = own if rng.random() < 0.8 else ([] if rng.random() < 0.5 else [[other, port]])
        return {"k": "A", "signer": node, "sts": list(ts), "saddrs": a, "ts": list(ts), "addrs": a}
    if kind == "forged":
        return {"k": "A", "signer": other, "sts": list(ts), "saddrs": own, "ts": list(ts), "addrs": own}
    if kind == "tamper_ts":
        sts = [ts[0] // 2, ts[1] + 1] if ts[1] < U64 else [ts[0], ts[1] - 1]
        return {"k": "A", "signer": node, "sts": sts, "saddrs": own, "ts": list(ts), "addrs": own}
    if kind == "tamper_addr":
        return {"k": "A", "signer": node, "sts": list(ts), "saddrs": own, "ts": list(ts), "addrs": [[node, port + 1000]] if rng.random() < 0.5 else []}
    if kind == "addr_forge":
        return _addr_forge(rng, rng.choice(ADDR_MUTS), node, other, ts, port, rng.choice([1, 1, 2, 3]), rng.randrange(3))
    if kind == "auth_multi":
        # authentic record whose SIGNED list holds several addresses of the one transport type (struct-level, no de-duplication)
        a = _signed_list(node, port, rng.choice([2, 3]))
        if rng.random() < 0.3:
            a = a + [a[0]]
        return {"k": "A", "signer": node, "sts": list(ts), "saddrs": a, "ts": list(ts), "addrs": a}
    if kind == "trusted":
        a = own if rng.random() < 0.7 else ([] if rng.random() < 0.5 else [[node, port], [node, port + 1]])
        return {"k": "T", "ts": list(ts), "addrs": a}
    if kind == "mismatch":
        a = [[other, port]] if rng.random() < 0.5 else [[node, port], [other, port + 1]]
        return {"k": "T", "ts": list(ts), "addrs": a}
    raise ValueError(kind)


# --- forged address lists: signature and timestamp of an authentic record kept, only the address list changed ---
# (all addresses are TransportAddress::Iroh, the only transport type; "same type" = another Iroh address)
ADDR_MUTS = ["ins_front", "ins_back", "ins_mid", "dup", "dup_far", "reorder", "replace", "drop", "ins_front2", "sandwich"]


def _signed_list(node, port, n):
    return [[node, port + 10 * j] for j in range(n)]


def _attacker(node, other, port, akind):
    # attacker endpoint id / the node's own id with another socket address / attacker id on the signed port
    return [[other, port + 2000], [node, port + 3000], [other, port]][akind]


def _mutate(rng, mut, s, atk, atk2):
    n = len(s)
    if mut == "ins_front":
        return [atk] + s
    if mut == "ins_back":
        return s + [atk]
    if mut == "ins_mid":
        i = rng.randint(1, n - 1) if n >= 2 else 0
        return s[:i] + [atk] + s[i:]
    if mut == "dup":
        i = rng.randrange(n)
        return s[:i + 1] + [s[i]] + s[i + 1:]
    if mut == "dup_far":
        return ([s[-1]] + s) if rng.random() < 0.5 else (s + [s[0]])
    if mut == "reorder":
        if n < 2:
            return [atk] + s
        t = s[1:] + s[:1] if rng.random() < 0.5 else s[::-1]
        return t
    if mut == "replace":
        i = rng.randrange(n)
        return s[:i] + [atk] + s[i + 1:]
    if mut == "drop":
        return s[1:] if rng.random() < 0.5 else s[:-1]
    if mut == "ins_front2":
        return [atk, atk2] + s
    if mut == "sandwich":
        return [atk] + s + [atk2]
    raise ValueError(mut)


def _addr_forge(rng, mut, node, other, ts, port, n, akind):
    s = _signed_list(node, port, n)
    atk = _attacker(node, other, port, akind)
    atk2 = _attacker(node, other, port + 1, (akind + 1) % 3)
    a = _mutate(rng, mut, s, atk, atk2)
    assert a != s
    return {"k": "A", "signer": node, "sts": list(ts), "saddrs": s, "ts": list(ts), "addrs": a, "mut": mut}


def _twin(r):
    """the authentic record a forged address list was derived from (same signature, same timestamp)"""
    return {"k": "A", "signer": r["signer"], "sts": list(r["sts"]), "saddrs": r["saddrs"], "ts": list(r["sts"]), "addrs": r["saddrs"]}


def _forge_sets(rng, tier):
    """every structural mutation x signed-list length x attacker address kind, next to an older authentic record and the
    authentic twin; forged record arriving first / between / last (quick) or in all 6 orders (thorough)"""
    for mut in ADDR_MUTS:
        for n in (1, 2, 3):
            if n == 1 and mut in ("ins_mid", "reorder", "dup_far"):
                continue  # coincide with ins_front / dup on a single address
            for akind in range(3):
                if mut in ("dup", "dup_far", "reorder", "drop") and akind > 0:
                    continue  # no attacker address involved
                nkeys = rng.choice([2, 3])
                node = rng.randrange(nkeys)
                other = rng.choice([k for k in range(nkeys) if k != node])
                t_old, t_new = sorted(_ts_pool(rng, 2, False))
                f = _addr_forge(rng, mut, node, other, t_new, 200, n, akind)
                old = {"k": "A", "signer": node, "sts": list(t_old), "saddrs": [[node, 100]], "ts": list(t_old), "addrs": [[node, 100]]}
                recs = [old, _twin(f), f]
                orders = list(itertools.permutations(range(3))) if tier != "quick" else [(2, 0, 1), (0, 2, 1), (0, 1, 2)]
                for o in orders:
                    yield {"mode": "direct", "nkeys": nkeys, "node": node, "recs": recs, "order": list(o)}
                # without the twin: the forged record is the newest thing the node ever hears
                yield {"mode": "direct", "nkeys": nkeys, "node": node, "recs": [old, f], "order": [0, 1]}
                yield {"mode": "actor", "nkeys": nkeys, "recs": recs,
                       "ops": [{"o": "t", "n": node, "r": 0}, {"o": "t", "n": node, "r": 2}, {"o": "t", "n": node, "r": 1},
                               {"o": "t", "n": node, "r": 2}]}


GOOD = ["auth", "auth", "trusted", "auth_multi"]
BAD = ["forged", "tamper_ts", "tamper_addr", "mismatch", "addr_forge", "addr_forge"]


def _recset(rng, n, node, nkeys):
    tss = _ts_pool(rng, n, ties=rng.random() < 0.2)
    kinds = [rng.choice(GOOD), rng.choice(GOOD), rng.choice(BAD)] + [rng.choice(GOOD + BAD) for _ in range(n - 3)]
    rng.shuffle(kinds)
    recs = [_rec(rng, kinds[i], node, nkeys, tss[i], 100 + i) for i in range(n)]
    # sometimes the authentic twin of a forged address list is in the set too (same timestamp, same signature)
    for i in range(n):
        if "mut" in recs[i] and rng.random() < 0.4:
            js = [j for j in range(n) if kinds[j] in ("auth", "auth_multi")]
            if js:
                recs[rng.choice(js)] = _twin(recs[i])
            break
    return recs


def gen(tier, rng):
    if tier == "quick":
        nsets4, nsets5, nperm5, nactor, maxops = 14, 60, 4, 260, 9
    else:
        nsets4, nsets5, nperm5, nactor, maxops = 60, 300, 12, 2500, 14
    yield from _forge_sets(rng, tier)
    for _ in range(nsets4):
        nkeys = rng.choice([2, 3])
        node = rng.randrange(nkeys)
        recs = _recset(rng, 4, node, nkeys)
        for perm in itertools.permutations(range(4)):
            yield {"mode": "direct", "nkeys": nkeys, "node": node, "recs": recs, "order": list(perm)}
    for _ in range(nsets5):
        nkeys = rng.choice([2, 3])
        node = rng.randrange(nkeys)
        recs = _recset(rng, 5, node, nkeys)
        for _ in range(nperm5):
            order = list(range(5))
            rng.shuffle(order)
            if rng.random() < 0.3:
                order.append(rng.randrange(5))  # a record arriving twice
            yield {"mode": "direct", "nkeys": nkeys, "node": node, "recs": recs, "order": order}
    for _ in range(nactor):
        nkeys = rng.choice([2, 3])
        recs, owner = [], []
        for n in range(nkeys):
            for r in _recset(rng, rng.randint(2, 4), n, nkeys):
                recs.append(r)
                owner.append(n)
        idx = list(range(len(recs)))
        rng.shuffle(idx)
        ops = []
        for i in idx[: rng.randint(3, maxops)]:
            x = rng.random()
            if x < 0.8:
                ops.append({"o": "t", "n": owner[i], "r": i})
            elif x < 0.88:
                ops.append({"o": "t", "n": rng.randrange(nkeys), "r": i})  # a record sent for the wrong node
            elif x < 0.96:
                ops.append({"o": "n", "n": owner[i], "b": rng.randrange(2), "r": i})
            else:
                ops.append({"o": "n", "n": rng.randrange(nkeys), "b": rng.randrange(2), "r": None})
        yield {"mode": "actor", "nkeys": nkeys, "recs": recs, "ops": ops}


def _addrs(a):
    return ",".join("%d.%d" % (x[0], x[1]) for x in a) if a else "_"


def _rec_tok(r):
    if r["k"] == "T":
        return "T/%d.%d/%s" % (r["ts"][0], r["ts"][1], _addrs(r["addrs"]))
    return "A/%d/%d.%d/%s/%d.%d/%s" % (r["signer"], r["sts"][0], r["sts"][1], _addrs(r["saddrs"]), r["ts"][0], r["ts"][1], _addrs(r["addrs"]))


def harness_line(case):
    recs = " ".join(_rec_tok(r) for r in case["recs"])
    if case["mode"] == "direct":
        return "direct %d %d %d %s %d %s" % (case["nkeys"], case["node"], len(case["recs"]), recs, len(case["order"]),
                                             " ".join(map(str, case["order"])))
    ops = []
    for o in case["ops"]:
        if o["o"] == "t":
            ops.append("t/%d/%d" % (o["n"], o["r"]))
        else:
            ops.append("n/%d/%d/%s" % (o["n"], o["b"], "-" if o["r"] is None else str(o["r"])))
    return "actor %d %d %s %d %s" % (case["nkeys"], len(case["recs"]), recs, len(ops), " ".join(ops))


def _cts(t):
    return "(%d%%N,%d%%N)" % (t[0], t[1])


def _caddrs(a):
    return "[" + ";".join("(%d%%N,%d%%N)" % (x[0], x[1]) for x in a) + "]"


def _crec(r):
    if r["k"] == "T":
        return "(@Trusted sym_sig %s %s)" % (_cts(r["ts"]), _caddrs(r["addrs"]))
    return "(@Authenticated sym_sig %s (sym_sign %d%%N (%s, %s)) %s)" % (_cts(r["ts"]), r["signer"], _cts(r["sts"]), _caddrs(r["saddrs"]), _caddrs(r["addrs"]))


def _crecs(case):
    return "[" + ";".join(_crec(r) for r in case["recs"]) + "]"


def _cops(case):
    out = []
    for o in case["ops"]:
        if o["o"] == "t":
            out.append("ST %d%%N %d%%nat" % (o["n"], o["r"]))
        else:
            out.append("SN %d%%N %s %s" % (o["n"], "true" if o["b"] else "false", "None" if o["r"] is None else "(Some %d%%nat)" % o["r"]))
    return "[" + ";".join(out) + "]"


def _cnats(xs):
    return "[" + ";".join("%d%%nat" % x for x in xs) + "]"


def coq_model(case):
    if case["mode"] == "direct":
        return "model_line_direct %d%%N %s %s" % (case["node"], _crecs(case), _cnats(case["order"]))
    return "model_line_actor %d%%nat %s %s" % (case["nkeys"], _crecs(case), _cops(case))


_RES = {"1": "Ok true", "0": "Ok false", "Es": "Err InvalidSignature", "Ei": "Err NodeIdMismatch"}


def _split(impl):
    res, _, fin = impl.partition("|")
    res = [t for t in res.strip().split(",") if t]
    return res, fin.strip()


def coq_oracle(case, impl):
    res, fin = _split(impl)
    if any(r not in _RES for r in res) or "?" in fin:
        return "false"
    cres = "[" + ";".join(_RES[r] for r in res) + "]"
    if case["mode"] == "direct":
        f = "None" if fin == "-" else "(Some %d%%nat)" % int(fin)
        return "check_direct %d%%N %s %s %s %s" % (case["node"], _crecs(case), _cnats(case["order"]), cres, f)
    ents = []
    for e in fin.split(";"):
        if e == "-":
            ents.append("None")
        else:
            b, _, i = e.partition(":")
            if b not in ("b0", "b1"):
                return "false"
            ents.append("(Some (%s, %s))" % ("true" if b == "b1" else "false", "None" if i == "-" else "(Some %d%%nat)" % int(i)))
    return "check_actor %d%%nat %s %s %s %s" % (case["nkeys"], _crecs(case), _cops(case), cres, "[" + ";".join(ents) + "]")


def nontrivial(case, impl):
    res, _ = _split(impl)
    return any(r.startswith("E") for r in res) and res.count("1") + res.count("0") >= 2 and (res.count("1") >= 2 or "0" in res)


def shrink(case):
    if case["mode"] == "direct":
        o = case["order"]
        for i in range(len(o)):
            yield dict(case, order=o[:i] + o[i + 1:])
    else:
        o = case["ops"]
        for i in range(len(o)):
            yield dict(case, ops=o[:i] + o[i + 1:])


def distribution(cases, impl):
    d = {"direct": 0, "actor": 0, "forged_addr_list_records": 0, "rejected_sig": 0, "rejected_id": 0, "accepted_newer": 0, "accepted_older": 0, "with_timestamp_tie": 0,
         "local_overwrites": 0}
    for i, c in enumerate(cases):
        d[c["mode"]] += 1
        d["forged_addr_list_records"] += sum(1 for r in c["recs"] if "mut" in r)
        tss = [tuple(r["ts"]) for r in c["recs"]]
        if len(set(tss)) < len(tss):
            d["with_timestamp_tie"] += 1
        if c["mode"] == "actor":
            d["local_overwrites"] += sum(1 for o in c["ops"] if o["o"] == "n")
        if i in impl:
            res, _ = _split(impl[i])
            d["rejected_sig"] += res.count("Es")
            d["rejected_id"] += res.count("Ei")
            d["accepted_newer"] += res.count("1")
            d["accepted_older"] += res.count("0")
    return d


REGISTERED = True
