"""C30 — Confidential discovery yields exactly the common topics."""
import itertools
import random

ID = "C30"
HARNESS_PKG = "h_c30"
COQ_IMPORTS = "From PV Require Import Model.Psi Oracle.C30."
COQ_SHARD = 70
TECHNIQUE = ("Coq proof over a Gallina model of psi_hash.rs (alice/bob as stream-to-messages functions, salted hash as a section "
             "variable, gather_transport_infos over an address-book model) + differential correspondence with the real protocol "
             "(real BLAKE3, real SqliteStore address book), both as a two-party session and one real side against scripted peers")
LEVEL_TEXT = ("Proved in Coq for all finite topic lists, all address books, all salt halves and every salted hash H that is injective in the "
              "topic for a fixed salt and never outputs a raw topic: C30_both_get_intersection (both DiscoveryResult.topics = the intersection, "
              "as sets, no repetitions), C30_no_raw_topic_in_messages (no Topic-typed value in any of the five messages is a topic of either "
              "side), C30_restricted_sharing_scope (restricted sharing sends only the own entry and non-stale book nodes subscribed to a common "
              "topic) plus completeness, the unrestricted scope, result/peer-infos agreement; and for ANY peer behaviour: the message-order state "
              "machine (C30_alice/bob_message_order: success iff S2,Nodes resp. S1,H3,Nodes arrive in order, otherwise UnexpectedMessage/Stream "
              "at the first deviation), causality of the sent messages, never a raw topic on the wire, result topics within the own topics, "
              "restricted scope w.r.t. the reported topics. The model is tied to p2panda-discovery/src/psi_hash.rs on every run: the harness runs "
              "the real alice()/bob() over channels, logs and serialises every message (postcard + CBOR), recognises each hashed value by "
              "recomputing BLAKE3(topic||halfA||halfB||byte), and the canonical observation must equal the model's line; the oracle "
              "(check_honest/check_script, soundness proved) is evaluated on the implementation's observation.")
LEVEL_NOTE = ("Trusted: Coq kernel + vm_compute; hand-written model; BLAKE3 (collision resistance as the two section hypotheses); SQLite executing "
              "the three address-book queries; serde/postcard/ciborium; mpsc channels; harness/python glue. Errors of store, subscription and "
              "sink are not modelled. Correspondence is differential testing.")
ASSUMPTIONS = ["H_inj: for a fixed salt the salted BLAKE3 hash is injective in the topic (collision resistance)",
               "H_not_raw: no salted hash equals a raw topic (collision/preimage resistance w.r.t. the secret random topics)",
               "teqb_spec: Topic equality is equality of the 32 bytes",
               "address book store, subscription and sink do not fail (their error paths are not modelled); channel is reliable and ordered",
               "salt halves are fresh randomness independent of the topics (modelled as a separate type, not scanned for in the model; the harness scans whole serialised messages)"]
TRUSTED = ["modelled not verified: BLAKE3; SQL of node_infos_by_topics/node_info/all_node_infos (documented meaning modelled, real SqliteStore driven by the harness); "
           "serde encodings; HashSet/BTreeMap as duplicate-free/sorted lists"]
RULE = ("quick: exhaustive honest sessions over a 2-topic universe (all 16 topic-set pairs x 4 sharing configs x 3 address-book shapes) + 150 random honest "
        "sessions (universe <= 12 topics, overlap patterns empty/disjoint/equal/subset/superset/random, books <= 8 nodes with stale / no-transport / self / remote "
        "entries) + all scripts of length <= 2 (and length 3 after a valid first item) for each side + 180 random one-sided scripted-peer cases (valid scripts, single mutations, random item sequences incl. stream errors, the peer closing its receiver after 0..3 messages, wrong-direction hashes, raw and "
        "junk words); thorough: universe <= 40, books <= 20, 1200 + 1200 random cases. non-trivial honest = non-empty intersection that differs from both sets; "
        "non-trivial script = real side read at least one item")

UNIVERSE_MAX = 60
NODES_MAX = 30


# ------------------------------------------------------------------------------------------------
# generators
# ------------------------------------------------------------------------------------------------

def _subset(rng, xs, p):
    return [x for x in xs if rng.random() < p]


def _topic_sets(rng, u):
    uni = list(range(u))
    kind = rng.choice(["random", "random", "random", "disjoint", "equal", "subset", "superset", "emptyA", "emptyB", "both_empty", "single"])
    if kind == "random":
        ta, tb = _subset(rng, uni, rng.random()), _subset(rng, uni, rng.random())
    elif kind == "disjoint":
        rng.shuffle(uni)
        k = rng.randint(0, u)
        ta, tb = uni[:k], _subset(rng, uni[k:], 0.8)
    elif kind == "equal":
        ta = _subset(rng, uni, 0.6)
        tb = list(ta)
    elif kind == "subset":
        tb = _subset(rng, uni, 0.7)
        ta = _subset(rng, tb, 0.5)
    elif kind == "superset":
        ta = _subset(rng, uni, 0.7)
        tb = _subset(rng, ta, 0.5)
    elif kind == "emptyA":
        ta, tb = [], _subset(rng, uni, 0.6)
    elif kind == "emptyB":
        ta, tb = _subset(rng, uni, 0.6), []
    elif kind == "both_empty":
        ta, tb = [], []
    else:
        t = rng.randrange(u)
        ta, tb = [t] + _subset(rng, [x for x in uni if x != t], 0.3), [t] + _subset(rng, [x for x in uni if x != t], 0.3)
    rng.shuffle(ta)
    rng.shuffle(tb)
    return ta, tb


def _book(rng, me, u, nmax, common, own):
    """Random address book: unique node ids; entries [id, stale, tr|None, topics]."""
    ids = []
    if rng.random() < 0.75:
        ids.append(me)
    if rng.random() < 0.5:
        ids.append(1 - me)
    others = list(range(2, NODES_MAX))
    rng.shuffle(others)
    ids += others[: rng.randint(0, nmax)]
    rng.shuffle(ids)
    book = []
    uni = list(range(u))
    for i in ids:
        r = rng.random()
        if r < 0.35 and common:
            ts = [rng.choice(common)] + _subset(rng, uni, 0.15)
        elif r < 0.55 and own:
            ts = [rng.choice(own)] + _subset(rng, [x for x in uni if x not in common], 0.1)
        elif r < 0.7:
            ts = []
        else:
            ts = _subset(rng, uni, rng.random() * 0.5)
        ts = sorted(set(ts))
        stale = 1 if rng.random() < 0.2 else 0
        tr = None if rng.random() < 0.2 else 100 * (me + 1) + i
        book.append([i, stale, tr, ts])
    return book


def _honest(rng, umax, nmax, seed):
    u = rng.randint(1, umax)
    ta, tb = _topic_sets(rng, u)
    common = [t for t in ta if t in tb]
    return {"mode": "honest", "seed": seed, "ra": rng.randint(0, 1) if rng.random() < 0.3 else 1, "rb": rng.randint(0, 1) if rng.random() < 0.3 else 1,
            "ta": ta, "tb": tb, "bookA": _book(rng, 0, u, nmax, common, ta), "bookB": _book(rng, 1, u, nmax, common, tb)}


# (|ta|, |tb|, |common|) of the fixed large-set sessions: around and above 256 on one / both sides
BIG_FIXED = [
    (255, 255, 255), (256, 256, 256), (257, 257, 257),      # equal sets at the boundary
    (257, 10, 5), (10, 257, 10),                             # one side only, small overlap / subset
    (300, 300, 280), (300, 600, 260), (600, 280, 270),       # both / one side, 256+ common topics
    (400, 40, 3), (30, 400, 2),                              # small overlaps
]
BIG_SIZES = [255, 256, 257, 258, 300, 400, 511, 512, 513, 600, 640]


def _big_books(rng, common, ta, tb):
    """Address books of 0-1 nodes (the canonical line stays dominated by the topic lists)."""
    def one(me, own):
        r = rng.random()
        if r < 0.3:
            return []
        i = me if r < 0.65 else rng.randint(2, 5)
        ts = sorted(set(([rng.choice(common)] if common and rng.random() < 0.6 else []) + ([rng.choice(own)] if own and rng.random() < 0.4 else [])))
        return [[i, 1 if rng.random() < 0.15 else 0, 100 * (me + 1) + i, ts]]
    return one(0, ta), one(1, tb)


def _big(rng, na, nb, nc, seed):
    """Honest session with |ta| = na, |tb| = nb and nc common topics (topic numbers shuffled)."""
    nc = min(nc, na, nb)
    nums = list(range(na + nb - nc))
    rng.shuffle(nums)
    common = nums[:nc]
    ta = common + nums[nc:na]
    tb = common + nums[na:]
    rng.shuffle(ta)
    rng.shuffle(tb)
    ba, bb = _big_books(rng, common, ta, tb)
    return {"mode": "honest", "seed": seed, "ra": 0 if rng.random() < 0.25 else 1, "rb": 0 if rng.random() < 0.25 else 1,
            "ta": ta, "tb": tb, "bookA": ba, "bookB": bb}


def _big_cases(tier, rng):
    seed0 = (1 << 30) + rng.randrange(1 << 29)
    out = [_big(rng, na, nb, nc, seed0 + i) for i, (na, nb, nc) in enumerate(BIG_FIXED)]
    if tier != "quick":
        for i in range(40):
            na = rng.choice(BIG_SIZES)
            nb = rng.choice(BIG_SIZES) if rng.random() < 0.6 else rng.choice([0, 1, 5, 40, 200])
            if rng.random() < 0.5:
                na, nb = nb, na
            lo = min(na, nb)
            nc = rng.choice([0, 1, rng.randint(0, lo), lo, max(0, lo - 1), min(lo, 256), min(lo, 257), min(lo, 255)])
            out.append(_big(rng, na, nb, nc, seed0 + 100 + i))
    return out


def _words(rng, u, byte_ok, own):
    ws = []
    n = rng.randint(0, 6)
    for _ in range(n):
        r = rng.random()
        j = rng.choice(own) if own and rng.random() < 0.6 else rng.randrange(u)
        if r < 0.65:
            ws.append("h%d.%d" % (byte_ok, j))
        elif r < 0.8:
            ws.append("h%d.%d" % (1 - byte_ok, j))
        elif r < 0.9:
            ws.append("r%d" % j)
        else:
            ws.append("j%d" % rng.randrange(8))
    return sorted(set(ws))


def _nodes_item(rng):
    ids = list(range(0, 12))
    rng.shuffle(ids)
    return ["N", [[i, 300 + i] for i in sorted(ids[: rng.randint(0, 4)])]]


def _script(rng, umax, nmax, seed):
    alice = rng.random() < 0.5
    u = rng.randint(1, umax)
    own = _subset(rng, list(range(u)), rng.random())
    rng.shuffle(own)
    # byte of the hashes the real side compares against: alice reads bob's (1), bob reads alice's (0)
    byte_ok = 1 if alice else 0

    def item(k):
        if k == "S1":
            return ["S1"]
        if k == "S2":
            return ["S2", _words(rng, u, byte_ok, own)]
        if k == "H3":
            return ["H3", _words(rng, u, byte_ok, own)]
        if k == "N":
            return _nodes_item(rng)
        return ["E"]

    valid = ["S2", "N"] if alice else ["S1", "H3", "N"]
    style = rng.random()
    if style < 0.3:
        kinds = list(valid) + [rng.choice(["S1", "S2", "H3", "N", "E"]) for _ in range(rng.randint(0, 2))]
    elif style < 0.7:
        kinds = list(valid)
        m = rng.choice(["drop", "swap", "dup", "replace", "truncate", "insert"])
        i = rng.randrange(len(kinds))
        if m == "drop":
            del kinds[i]
        elif m == "swap" and len(kinds) > 1:
            j = (i + 1) % len(kinds)
            kinds[i], kinds[j] = kinds[j], kinds[i]
        elif m == "dup":
            kinds.insert(i, kinds[i])
        elif m == "replace":
            kinds[i] = rng.choice(["S1", "S2", "H3", "N", "E"])
        elif m == "truncate":
            kinds = kinds[:i]
        else:
            kinds.insert(i, rng.choice(["S1", "S2", "H3", "N", "E"]))
    else:
        kinds = [rng.choice(["S1", "S2", "H3", "N", "E"]) for _ in range(rng.randint(0, 5))]
    me = 0 if alice else 1
    sink = rng.randint(0, 3) if rng.random() < 0.3 else None
    return {"mode": "alice" if alice else "bob", "seed": seed, "r": 0 if rng.random() < 0.25 else 1, "topics": own,
            "book": _book(rng, me, u, nmax, own, own), "script": [item(k) for k in kinds], "sink": sink}


SMALL_BOOKS = [
    lambda me: [],
    lambda me: [[me, 0, 100 + me, [0]], [2, 0, 102, [0]], [3, 0, 103, [1]], [4, 0, 104, []]],
    lambda me: [[me, 1, 100 + me, []], [1 - me, 0, 110, [0, 1]], [2, 1, 102, [0]], [3, 0, None, [0]], [5, 0, 105, [0, 1]]],
]


def gen(tier, rng):
    """The base stream with one large-topic-set session injected every `stride` cases: the Coq evaluation is sharded in
    contiguous blocks of COQ_SHARD/2 cases, so the expensive cases end up in different shards."""
    big = _big_cases(tier, random.Random(rng.randrange(1 << 30)))
    stride = 58 if tier == "quick" else 53
    n = 0
    for c in _gen_base(tier, rng):
        yield c
        n += 1
        if big and n % stride == 0:
            yield big.pop(0)
    for c in big:
        yield c


def _gen_base(tier, rng):
    seed0 = rng.randrange(1 << 30)
    k = 0
    subsets = [[], [0], [1], [0, 1]]
    if tier == "quick":
        nh, ns, umax, nmax = 150, 180, 12, 8
    else:
        nh, ns, umax, nmax = 1200, 1200, 40, 20
    for ta in subsets:
        for tb in subsets:
            for ra, rb in itertools.product((0, 1), repeat=2):
                for bi, mkb in enumerate(SMALL_BOOKS):
                    if tier == "quick" and (ra, rb) in ((0, 1), (1, 0)) and bi == 0:
                        continue
                    k += 1
                    yield {"mode": "honest", "seed": seed0 + k, "ra": ra, "rb": rb, "ta": ta, "tb": tb, "bookA": mkb(0), "bookB": mkb(1)}
    for _ in range(nh):
        k += 1
        yield _honest(rng, umax, nmax, seed0 + k)
    # the shortest scripts exhaustively (length <= 2 over the five item kinds, fixed payloads)
    fixed = {"S1": ["S1"], "S2": ["S2", ["h1.0", "h0.1"]], "H3": ["H3", ["h0.0", "h1.1"]], "N": ["N", [[2, 302]]], "E": ["E"]}
    for mode in ("alice", "bob"):
        me = 0 if mode == "alice" else 1
        for n in range(0, 3):
            for kinds in itertools.product(["S1", "S2", "H3", "N", "E"], repeat=n):
                k += 1
                yield {"mode": mode, "seed": seed0 + k, "r": 1, "topics": [0, 1], "book": SMALL_BOOKS[1](me), "script": [fixed[x] for x in kinds]}
    # length 3 with a valid first item (so the second and third position are actually read)
    for mode, first in (("alice", "S2"), ("bob", "S1")):
        me = 0 if mode == "alice" else 1
        for kinds in itertools.product(["S1", "S2", "H3", "N", "E"], repeat=2):
            k += 1
            yield {"mode": mode, "seed": seed0 + k, "r": 1, "topics": [0, 1], "book": SMALL_BOOKS[1](me), "script": [fixed[x] for x in (first,) + kinds]}
    # sink closing after 0..3 messages against the valid script and its prefixes
    for mode, valid in (("alice", ["S2", "N"]), ("bob", ["S1", "H3", "N"])):
        me = 0 if mode == "alice" else 1
        for n in range(len(valid) + 1):
            for sink in range(0, 4):
                k += 1
                yield {"mode": mode, "seed": seed0 + k, "r": 1, "topics": [0, 1], "book": SMALL_BOOKS[1](me),
                       "script": [fixed[x] for x in valid[:n]], "sink": sink}
    for _ in range(ns):
        k += 1
        yield _script(rng, umax, nmax, seed0 + k)


# ------------------------------------------------------------------------------------------------
# harness line
# ------------------------------------------------------------------------------------------------

def _csv(xs):
    return ",".join(map(str, xs)) if xs else "-"


def _book_line(book):
    if not book:
        return "-"
    return ";".join("%d:%d:%s:%s" % (e[0], e[1], "-" if e[2] is None else e[2], "/".join(map(str, e[3])) if e[3] else "-") for e in book)


def _script_line(script):
    out = []
    for it in script:
        if it[0] in ("S1", "E"):
            out.append(it[0])
        elif it[0] in ("S2", "H3"):
            out.append("%s:%s" % (it[0], _csv(it[1])))
        else:
            out.append("N:%s" % (",".join("%d=%d" % (a, b) for a, b in it[1]) if it[1] else "-"))
    return ";".join(out) if out else "-"


def harness_line(case):
    if case["mode"] == "honest":
        return "honest %d %d %d | %s | %s | %s | %s" % (case["seed"], case["ra"], case["rb"], _csv(case["ta"]), _csv(case["tb"]),
                                                      _book_line(case["bookA"]), _book_line(case["bookB"]))
    sink = case.get("sink")
    return "%s %d %d %s | %s | %s | %s" % (case["mode"], case["seed"], case["r"], "-" if sink is None else sink, _csv(case["topics"]),
                                           _book_line(case["book"]), _script_line(case["script"]))


# ------------------------------------------------------------------------------------------------
# Gallina terms
# ------------------------------------------------------------------------------------------------

def _b(x):
    return "true" if x else "false"


def _nl(xs):
    return "[" + ";".join("%d%%N" % x for x in xs) + "]"


def _gbook(book):
    return "[" + ";".join("(%d%%N,%s,%s,%s)" % (e[0], _b(e[1]), "None" if e[2] is None else "Some %d%%N" % e[2], _nl(e[3])) for e in book) + "]"


def _gword(w):
    if w.startswith("h0."):
        return "h0 %d%%N" % int(w[3:])
    if w.startswith("h1."):
        return "h1 %d%%N" % int(w[3:])
    if w.startswith("r"):
        return "Raw %d%%N" % int(w[1:])
    if w.startswith("j"):
        return "Junk %d%%N" % int(w[1:])
    return "Unk"


def _gwords(ws):
    return "[" + ";".join(_gword(w) for w in ws) + "]"


def _ginfos(pairs):
    return "[" + ";".join("(%d%%N,%d%%N)" % (a, b) for a, b in pairs) + "]"


def _gscript(script):
    out = []
    for it in script:
        if it[0] == "S1":
            out.append("IS1")
        elif it[0] == "E":
            out.append("IErr")
        elif it[0] == "S2":
            out.append("IS2 %s" % _gwords(it[1]))
        elif it[0] == "H3":
            out.append("IH3 %s" % _gwords(it[1]))
        else:
            out.append("INodes %s" % _ginfos(it[1]))
    return "[" + ";".join(out) + "]"


def _gsink(case):
    k = case.get("sink")
    return "None" if k is None else "(Some %d)" % k


def coq_model(case):
    if case["mode"] == "honest":
        return "model_honest %s %s %s %s %s %s" % (_b(case["ra"]), _b(case["rb"]), _nl(case["ta"]), _nl(case["tb"]),
                                                   _gbook(case["bookA"]), _gbook(case["bookB"]))
    return "model_script %s %s %s %s %s %s" % (_b(case["mode"] == "alice"), _b(case["r"]), _nl(case["topics"]), _gbook(case["book"]),
                                               _gscript(case["script"]), _gsink(case))


class Unparsable(Exception):
    pass


def _plist(s):
    s = s.strip()
    return [] if s in ("", "-") else [x.strip() for x in s.split(",")]


def _pinfos(s):
    out = []
    for x in _plist(s):
        a, b = x.split("=")
        if not (a.isdigit() and b.isdigit()):
            raise Unparsable(x)
        out.append((int(a), int(b)))
    return out


def _goutcome(s):
    s = s.strip()
    if s.startswith("err "):
        v = s[4:].strip()
        if v == "UnexpectedMessage":
            return "(@Fail cw UnexpectedMessage)"
        if v == "Stream":
            return "(@Fail cw StreamErr)"
        if v == "Sink":
            return "(@Fail cw SinkErr)"
        raise Unparsable(s)
    if not s.startswith("ok "):
        raise Unparsable(s)
    ts, infos, remote = [p.strip() for p in s[3:].split("/")]
    topics = "[" + ";".join("Raw %d%%N" % int(t) if t.isdigit() else "Unk" for t in _plist(ts)) + "]"
    if not remote.isdigit():
        raise Unparsable(s)
    return "(Done (Build_result cw %d%%N %s %s))" % (int(remote), _ginfos(_pinfos(infos)), topics)


def _gmsgs(s):
    """-> (messages of a, messages of b) as Gallina lists of cmsg."""
    a, b = [], []
    s = s.strip()
    if s != "-":
        for it in s.split(" ; "):
            d, rest = it.strip().split(">", 1)
            k, _, arg = rest.partition(" ")
            if k == "S1":
                t = "AliceSaltHalf 0%N"
            elif k == "S2":
                t = "BobSaltHalfAndHashedData 1%%N %s" % _gwords(_plist(arg))
            elif k == "H3":
                t = "AliceHashedData %s" % _gwords(_plist(arg))
            elif k == "N":
                t = "Nodes %s" % _ginfos(_pinfos(arg))
            else:
                raise Unparsable(it)
            (a if d == "a" else b).append("(%s : cmsg)" % t)
    return "[" + ";".join(a) + "]", "[" + ";".join(b) + "]"


def _leaks(s):
    s = s.strip()
    if not s.startswith("leaks"):
        raise Unparsable(s)
    return len(_plist(s[5:]))


def coq_oracle(case, impl):
    parts = impl.split(" | ")
    if case["mode"] == "honest":
        if len(parts) != 4:
            return "false"
        ma, mb = _gmsgs(parts[2])
        return "check_honest %s %s %s %s %s %s %s %s %s %s %d" % (
            _b(case["ra"]), _b(case["rb"]), _nl(case["ta"]), _nl(case["tb"]), _gbook(case["bookA"]), _gbook(case["bookB"]),
            _goutcome(parts[0]), _goutcome(parts[1]), ma, mb, _leaks(parts[3]))
    if len(parts) != 3:
        return "false"
    ma, mb = _gmsgs(parts[1])
    alice = case["mode"] == "alice"
    if (mb if alice else ma) != "[]":
        return "false"
    return "check_script %s %s %s %s %s %s %s %s %d" % (
        _b(alice), _b(case["r"]), _nl(case["topics"]), _gbook(case["book"]), _gscript(case["script"]), _gsink(case),
        _goutcome(parts[0]), ma if alice else mb, _leaks(parts[2]))


def nontrivial(case, impl):
    if case["mode"] == "honest":
        common = set(case["ta"]) & set(case["tb"])
        return bool(common) and common != set(case["ta"]) and common != set(case["tb"]) and impl.startswith("ok ")
    return len(case["script"]) >= 1


def shrink(case):
    def without(xs, i):
        return xs[:i] + xs[i + 1:]
    if case["mode"] == "honest":
        # large topic sets: first drop topics from both sides alike / halves of one side
        if max(len(case["ta"]), len(case["tb"])) > 16:
            for drop in (set(case["ta"][::2]) | set(case["tb"][::2]), set(case["ta"][len(case["ta"]) // 2:]), set(case["tb"][len(case["tb"]) // 2:]),
                         set(case["ta"][-8:]), set(case["tb"][-8:])):
                if drop:
                    c = dict(case)
                    c["ta"] = [t for t in case["ta"] if t not in drop]
                    c["tb"] = [t for t in case["tb"] if t not in drop]
                    yield c
                    for key in ("ta", "tb"):
                        c = dict(case)
                        c[key] = [t for t in case[key] if t not in drop]
                        if len(c[key]) < len(case[key]):
                            yield c
        for key in ("bookA", "bookB", "ta", "tb"):
            for i in range(len(case[key])):
                c = dict(case)
                c[key] = without(case[key], i)
                yield c
        for key in ("bookA", "bookB"):
            for i, e in enumerate(case[key]):
                for j in range(len(e[3])):
                    c = dict(case)
                    c[key] = case[key][:i] + [[e[0], e[1], e[2], without(e[3], j)]] + case[key][i + 1:]
                    yield c
    else:
        if case.get("sink") is not None:
            c = dict(case)
            c["sink"] = None
            yield c
        for key in ("script", "book", "topics"):
            for i in range(len(case[key])):
                c = dict(case)
                c[key] = without(case[key], i)
                yield c
        for i, it in enumerate(case["script"]):
            if it[0] in ("S2", "H3", "N"):
                for j in range(len(it[1])):
                    c = dict(case)
                    c["script"] = case["script"][:i] + [[it[0], without(it[1], j)]] + case["script"][i + 1:]
                    yield c


def distribution(cases, impl):
    d = {"honest": 0, "alice_script": 0, "bob_script": 0, "honest_common_nonempty": 0, "honest_restricted_any": 0,
         "script_ok": 0, "script_unexpected": 0, "script_stream": 0, "max_topics": 0, "max_book": 0,
         "honest_over_256_one_side": 0, "honest_over_256_both_sides": 0, "honest_common_over_255": 0}
    for i, c in enumerate(cases):
        o = impl.get(i, "")
        if c["mode"] == "honest":
            d["honest"] += 1
            if set(c["ta"]) & set(c["tb"]):
                d["honest_common_nonempty"] += 1
            if c["ra"] or c["rb"]:
                d["honest_restricted_any"] += 1
            d["max_topics"] = max(d["max_topics"], len(c["ta"]), len(c["tb"]))
            over = (len(c["ta"]) > 256) + (len(c["tb"]) > 256)
            if over == 1:
                d["honest_over_256_one_side"] += 1
            elif over == 2:
                d["honest_over_256_both_sides"] += 1
            if len(set(c["ta"]) & set(c["tb"])) > 255:
                d["honest_common_over_255"] += 1
            d["max_book"] = max(d["max_book"], len(c["bookA"]), len(c["bookB"]))
        else:
            d[c["mode"] + "_script"] += 1
            if o.startswith("ok "):
                d["script_ok"] += 1
            elif o.startswith("err UnexpectedMessage"):
                d["script_unexpected"] += 1
            elif o.startswith("err Stream"):
                d["script_stream"] += 1
            elif o.startswith("err Sink"):
                d["script_sink"] = d.get("script_sink", 0) + 1
    return d
