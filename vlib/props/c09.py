"""C09 — Operation, topic and cursor stores behave like their abstract collections."""

ID = "C09"
HARNESS_PKG = "h_store"
HARNESS_ARGS = ["c09"]
COQ_IMPORTS = "From PV Require Import Model.Stores Oracle.C09.\nOpen Scope N_scope."
COQ_SHARD = 40
HARNESS_PROCS = 16
TECHNIQUE = ("Coq refinement proof: the row-level model of the SQL (INSERT OR IGNORE / ON CONFLICT / UNIQUE / NOT NULL) refines the abstract "
             "map / set / map step by step with equal outputs + differential correspondence of the row-level model with the real SqliteStore")
LEVEL_TEXT = ("Theorems C09_step_refines / C09_run_refines: for every state, every command and every command sequence with signed headers the "
              "row-level model of operations_v1, topics_v1 and cursors_v1 (lists of rows, the SQL read literally) yields the abstract collection "
              "semantics (operations: partial map id -> (header, body?, log), insert true exactly when absent; topics: set of triples; cursors: "
              "last-writer-wins map) with equal outputs; C09_unsigned_insert_reports_false covers the excluded unsigned case; corollaries "
              "C09_insert_once_and_read_back, C09_cursor_last_writer_wins. The row-level model is tied to the real store on every run: random "
              "interleaved command sequences over the three stores on one in-memory SQLite database, compared step by step; the oracle is the "
              "model's answer evaluated in Coq on the implementation's observation.")
LEVEL_NOTE = ("Proof is about the hand-written row-level model; SQLite's constraint handling is modelled, validated by differential testing "
              "bounded by the generator. Header/body/cursor contents are opaque identities in the model; the harness compares the bytes read back.")
ASSUMPTIONS = ["headers are signed (an unsigned header is swallowed by OR IGNORE and reported false: separate lemma, exercised by the generator too)",
               "SQLite constraint semantics (OR IGNORE, ON CONFLICT DO UPDATE, UNIQUE, NOT NULL), BINARY collation for cursor names",
               "CBOR encoding of topic, log id and cursor is injective; the id passed to insert_operation is the operation's hash",
               "one command at a time (no concurrent transactions; that is C10)"]
TRUSTED = ["modelled not verified: SQLite/sqlx constraint handling and decoding"]
RULE = ("quick: 200 random cases of 70-130 interleaved commands over 4-8 operations (some unsigned, empty/none/non-empty bodies), 3 topics x 3 authors x 3 logs, "
        "7 cursor names (empty string, case variants, trailing space, quotes, non-ASCII) with fresh cursor values; every write is followed by reads of "
        "the touched key; thorough: 2000 cases up to 200 commands. non-trivial = at least five of: an ignored insert, a successful delete, a payload deletion read back, "
        "an ignored associate, a resolve with >= 2 pairs, a cursor overwritten and read back")


def _ops(rng, n):
    ops, seen0 = [], set()
    while len(ops) < n:
        a = rng.randrange(3)
        s = rng.choice([0, 0, 1, 2, 3, 300, 70000])
        p = rng.choice([0, 0, 1, 5, 24, 300, 65536, 4294967295])
        b = None if (rng.random() < 0.2 or p > 70000) else rng.choice([0, 1, p if p <= 300 else 9])
        signed = 0 if rng.random() < 0.12 else 1
        if p == 0:
            if (a, s, signed) in seen0:
                continue
            seen0.add((a, s, signed))
        ops.append([a, s, p, b, signed])
    return ops


def _case(rng, nops, ncmd):
    """Interleaved commands over the three stores.  `stored`, `assoc`, `named` only bias the choice of
    keys towards ones that are (or were) present; no answer is predicted here."""
    ops = _ops(rng, nops)
    cmds = []
    val = [0]
    stored, assoc, named = set(), set(), set()
    signed = [k for k in range(nops) if ops[k][4]] or [0]
    nnames = rng.choice([2, 3, 7])
    tdom = rng.choice([2, 3])

    def fresh():
        val[0] += 1
        return val[0]

    for k in range(min(2, nops)):
        cmds += [["G", k], ["A", k]]
    cmds += [["R", 0], ["c", 0]]
    while len(cmds) < ncmd:
        r = rng.random()
        if r < 0.45:
            x = rng.random()
            pick = lambda pool: rng.choice(sorted(pool)) if pool and rng.random() < 0.7 else rng.randrange(nops)
            if x < 0.4:
                k = pick(stored) if rng.random() < 0.35 else rng.randrange(nops)
                cmds.append(["I", k, rng.randrange(3)])
                if ops[k][4]:
                    stored.add(k)
            elif x < 0.6:
                k = pick(stored)
                cmds.append(["D", k])
                stored.discard(k)
            elif x < 0.8:
                k = pick({j for j in stored if ops[j][3] is not None})
                cmds.append(["X", k])
            else:
                cmds.append([rng.choice("GgAa"), rng.randrange(nops)])
                continue
            cmds.append([rng.choice("Gg"), k])
            if rng.random() < 0.5:
                cmds.append([rng.choice("Aa"), k])
            if rng.random() < 0.3:
                cmds.append([rng.choice("GA"), rng.randrange(nops)])
        elif r < 0.75:
            x = rng.random()
            if assoc and rng.random() < 0.4:
                t, a, l = rng.choice(sorted(assoc))
            else:
                t, a, l = rng.randrange(tdom), rng.randrange(tdom), rng.randrange(3)
            if x < 0.6:
                cmds.append(["t", t, a, l])
                assoc.add((t, a, l))
            elif x < 0.85:
                cmds.append(["r", t, a, l])
            cmds.append(["R", t])
            if rng.random() < 0.25:
                cmds.append(["R", rng.randrange(4)])
        else:
            n = rng.choice(sorted(named)) if named and rng.random() < 0.5 else rng.randrange(nnames)
            x = rng.random()
            if x < 0.65:
                cmds.append(["s", n, 0 if rng.random() < 0.1 and val[0] == 0 else fresh()])
                named.add(n)
            elif x < 0.8:
                cmds.append(["d", n])
            cmds.append(["c", n])
            if rng.random() < 0.4:
                cmds.append(["c", rng.randrange(7)])
    return {"ops": ops, "cmds": cmds}


def gen(tier, rng):
    if tier == "quick":
        for _ in range(200):
            yield _case(rng, rng.randint(4, 8), rng.randint(70, 130))
    else:
        for _ in range(2000):
            yield _case(rng, rng.randint(4, 14), rng.randint(30, 200))


def _o(v):
    return "-" if v is None else str(v)


def harness_line(case):
    ops = " ".join("O%d,%d,%d,%s,%d" % (o[0], o[1], o[2], _o(o[3]), o[4]) for o in case["ops"])
    return ops + " | " + " ".join("%s%s" % (c[0], ",".join(map(str, c[1:]))) for c in case["cmds"])


def _cmd(case, c):
    k = c[0]
    if k == "I":
        o = case["ops"][c[1]]
        body = "None" if o[3] is None else "(Some %d)" % c[1]
        return "OpInsert %d %d %s %d %s" % (c[1], c[1], body, c[2], "true" if o[4] else "false")
    if k in ("G", "g"):
        return "OpGet %d" % c[1]
    if k in ("A", "a"):
        return "OpHas %d" % c[1]
    if k == "D":
        return "OpDelete %d" % c[1]
    if k == "X":
        return "OpDeletePayload %d" % c[1]
    if k == "t":
        return "TAssociate %d %d %d" % (c[1], c[2], c[3])
    if k == "r":
        return "TRemove %d %d %d" % (c[1], c[2], c[3])
    if k == "R":
        return "TResolve %d" % c[1]
    if k == "s":
        return "CSet %d %d" % (c[1], c[2])
    if k == "c":
        return "CGet %d" % c[1]
    if k == "d":
        return "CDelete %d" % c[1]
    raise ValueError(k)


def _cmds(case):
    return "[" + ";".join(_cmd(case, c) for c in case["cmds"]) + "]"


def coq_model(case):
    return "model_line %s" % _cmds(case)


def _b(t):
    if t == "1":
        return "true"
    if t == "0":
        return "false"
    raise ValueError(t)


def _iobs(c, tok):
    k = c[0]
    try:
        if tok == "ERR":
            return "IErr"
        if tok == "PANIC":
            return "IPanic"
        if k in "IAaDXtr":
            return "IB %s" % _b(tok)
        if k in "Gg":
            if tok == "-":
                return "IOp None"
            i, b = tok.split(".")
            if b not in ("y", "n"):
                return "IBad"
            return "IOp (Some (%d, %s))" % (int(i), "true" if b == "y" else "false")
        if k == "R":
            if tok == "-":
                return "IPairs []"
            ps = []
            for grp in tok.split(";"):
                a, ls = grp.split(":")
                for l in ls.split("."):
                    ps.append("(%d,%d)" % (int(a), int(l)))
            return "IPairs [%s]" % ";".join(ps)
        if k == "c":
            return "ICur None" if tok == "-" else "ICur (Some %d)" % int(tok)
        if k in "sd":
            return "IUnit" if tok == "u" else "IBad"
    except (ValueError, TypeError):
        pass
    return "IBad"


def coq_oracle(case, impl):
    toks = impl.split()
    if len(toks) != len(case["cmds"]):
        return "false"
    return "check %s [%s]" % (_cmds(case), ";".join("(%s)" % _iobs(c, t) for c, t in zip(case["cmds"], toks)))


def _stats(case, impl):
    toks = impl.split()
    st = {"insert_ignored": 0, "insert_unsigned": 0, "deleted": 0, "payload_gone_read": 0, "assoc_ignored": 0,
          "resolve_multi": 0, "cursor_overwrite_read": 0, "err": 0, "panic": 0}
    if len(toks) != len(case["cmds"]):
        return st
    stored, nobody, curs = set(), set(), {}
    for c, t in zip(case["cmds"], toks):
        k = c[0]
        if t == "ERR":
            st["err"] += 1
        elif t == "PANIC":
            st["panic"] += 1
        elif k == "I":
            if not case["ops"][c[1]][4]:
                st["insert_unsigned"] += 1
            elif t == "0":
                st["insert_ignored"] += 1
        elif k == "D" and t == "1":
            st["deleted"] += 1
        elif k == "X" and t == "1" and case["ops"][c[1]][3] is not None:
            nobody.add(c[1])
        elif k in "Gg" and t.endswith(".n") and c[1] in nobody:
            st["payload_gone_read"] += 1
        elif k == "t" and t == "0":
            st["assoc_ignored"] += 1
        elif k == "R" and (";" in t or "." in t):
            st["resolve_multi"] += 1
        elif k == "s":
            curs[c[1]] = curs.get(c[1], 0) + 1
        elif k == "d":
            curs.pop(c[1], None)
        elif k == "c" and t not in ("-", "?") and curs.get(c[1], 0) >= 2:
            st["cursor_overwrite_read"] += 1
    return st


def nontrivial(case, impl):
    st = _stats(case, impl)
    return sum(st[k] > 0 for k in ("insert_ignored", "deleted", "payload_gone_read", "assoc_ignored", "resolve_multi", "cursor_overwrite_read")) >= 5


def shrink(case):
    cmds = case["cmds"]
    n = len(cmds)
    size = n // 2
    while size >= 1:
        for i in range(0, n, size):
            cand = cmds[:i] + cmds[i + size:]
            if cand:
                yield {"ops": case["ops"], "cmds": cand}
        size //= 2


def distribution(cases, impl):
    tot, kinds, n = {}, {}, 0
    for i, c in enumerate(cases):
        n += len(c["cmds"])
        for x in c["cmds"]:
            kinds[x[0]] = kinds.get(x[0], 0) + 1
        if i in impl:
            for k, v in _stats(c, impl[i]).items():
                tot[k] = tot.get(k, 0) + v
    return {"cases": len(cases), "store_calls": n, "calls_by_kind": kinds, "events": tot,
            "mean_calls_per_case": round(n / max(1, len(cases)), 1)}
