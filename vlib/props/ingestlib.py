"""Shared python side of the ingest / log-prune checks (C03, C05; C04 reuses the term builders).

A case is {"na": authors, "nl": logs, "ops": [op...], "ds": [index into ops...]}.
An op is {"a","l","seq","bl","p","b","c","id"[, "src"]}:
  bl  backlink: None | ["o", j] (header hash of op j, j earlier) | ["b", k] (bogus hash k)
  p,b prune flag / has body (0|1)
  c   corruption: 0 none, 1 signed by another key, 2 tampered after signing, 3 payload mismatch,
      4 unsupported version, 5 signature missing
  id  the `Operation.hash` field: "s" (the header hash) | ["o", j] | ["j", k] (junk hash k)
  src optional: index of an earlier op whose *header* is reused unchanged (a copy, e.g. without
      the body); a,l,seq,bl,p,c are then those of the source.
Hash numbering shared with the harness: header hash of op j = j+1, junk k = 800+k, bogus k = 900+k.
"""
import itertools

U32MAX = 4294967295


def resolve(ops):
    """Per op: the abstract fields the model sees (dict), following `src` copies."""
    out = []
    for i, o in enumerate(ops):
        if o.get("src") is not None:
            s = out[o["src"]]
            src_has_payload = ops_root(ops, o["src"])["b"]
            valid = s["valid"] and (not o["b"] or src_has_payload)
            r = dict(s)
            r["body"] = o["b"]
            r["valid"] = valid
        else:
            bl = o["bl"]
            blnum = None if bl is None else (bl[1] + 1 if bl[0] == "o" else 900 + bl[1])
            if bl is not None and bl[0] == "o":
                blnum = out[bl[1]]["hh"]
            valid = o["c"] == 0 and ((o["seq"] == 0) == (bl is None))
            r = {"a": o["a"], "l": o["l"], "seq": o["seq"], "hh": i + 1, "bl": blnum, "p": o["p"],
                 "body": o["b"], "valid": valid}
        idf = o["id"]
        if idf == "s":
            r["id"] = r["hh"]
        elif idf[0] == "o":
            r["id"] = out[idf[1]]["hh"]
        else:
            r["id"] = 800 + idf[1]
        out.append(r)
    return out


def ops_root(ops, j):
    while ops[j].get("src") is not None:
        j = ops[j]["src"]
    return ops[j]


def ids_ok(case):
    """No delivered validated operation carries a hash field different from its header hash."""
    r = resolve(case["ops"])
    return all((not r[i]["valid"]) or r[i]["id"] == r[i]["hh"] for i in set(case["ds"]))


def wf(case):
    """The theorems' hypothesis wf_history on the delivered ops (python mirror, used for statistics)."""
    r = resolve(case["ops"])
    ds = [r[i] for i in sorted(set(case["ds"]))]
    for x in ds:
        if x["valid"] and x["id"] != x["hh"]:
            return False
    for x in ds:
        for y in ds:
            if x["valid"] and y["valid"]:
                same_slot = (x["a"], x["l"], x["seq"]) == (y["a"], y["l"], y["seq"])
                if same_slot and x["hh"] != y["hh"]:
                    return False
    return True


# ---------------------------------------------------------------- harness payload

def _bl(b):
    return "n" if b is None else "%s%d" % (b[0], b[1])


def _id(i):
    return "s" if i == "s" else "%s%d" % (i[0], i[1])


def harness_line(case):
    ops = []
    for o in case["ops"]:
        s = "%d,%d,%d,%s,%d,%d,%d,%s" % (o["a"], o["l"], o["seq"], _bl(o["bl"]), o["p"], o["b"], o["c"], _id(o["id"]))
        if o.get("src") is not None:
            s += ",%d" % o["src"]
        ops.append(s)
    return "%d %d|%s|%s" % (case["na"], case["nl"], ";".join(ops), " ".join(map(str, case["ds"])))


# ---------------------------------------------------------------- Coq terms

def N(x):
    return "%d%%N" % x


def optN(x):
    return "None" if x is None else "(Some %s)" % N(x)


def B(x):
    return "true" if x else "false"


def coq_op(r):
    return "(mkOp %s %s %s %s %s %s %s %s %s)" % (N(r["a"]), N(r["l"]), N(r["seq"]), N(r["id"]), N(r["hh"]), optN(r["bl"]),
                                                   B(r["p"]), B(r["body"]), B(r["valid"]))


def coq_ops(case):
    return "[" + ";".join(coq_op(r) for r in resolve(case["ops"])) + "]"


def coq_nats(xs):
    return "[" + ";".join("%d%%nat" % x for x in xs) + "]"


RES = {"I": "Inserted", "A": "AlreadyExists", "P": "Panicked"}
ERR = {"Invalid": "EInvalid", "TooManyAuthors": "ETooManyAuthors", "SeqNumNonIncremental": "ESeqNonIncremental",
       "BacklinkMismatch": "EBacklinkMismatch", "BacklinkMissing": "EBacklinkMissing"}


def parse_impl(impl):
    """-> (valid bits, [ (res, rows, heights) ]) ; raises on anything not in the canonical format."""
    parts = [p.strip() for p in impl.split(" ; ")]
    if not parts[0].startswith("V="):
        raise ValueError("no V=")
    bits = parts[0][2:]
    steps = []
    for st in parts[1:]:
        res, _, logs = st.partition("/")
        rows, heights = [], []
        for lg in [x for x in logs.split("+") if x]:
            head, _, rest = lg.partition("=")
            a, l = head.split(".")
            es, _, h = rest.rpartition("^")
            for e in [x for x in es.split(",") if x]:
                seq, idn, hh, bl, p, b = e.split(":")
                rows.append({"a": int(a), "l": int(l), "seq": int(seq), "id": int(idn), "hh": int(hh),
                             "bl": None if bl == "-" else int(bl), "p": p == "1", "body": b == "1"})
            if h != "-":
                heights.append((int(a), int(l), int(h)))
        steps.append((res, rows, heights))
    return bits, steps


def coq_res(res):
    if res in RES:
        return RES[res]
    if res.startswith("R:") and res[2:] in ERR:
        return "(Rejected %s)" % ERR[res[2:]]
    raise ValueError("unknown result " + res)


def coq_row(r):
    return "(mkRow %s %s %s %s %s %s %s %s)" % (N(r["a"]), N(r["l"]), N(r["seq"]), N(r["id"]), N(r["hh"]), optN(r["bl"]),
                                                 B(r["p"]), B(r["body"]))


def coq_obs(steps):
    out = []
    for res, rows, heights in steps:
        out.append("(mkObs %s [%s] [%s])" % (coq_res(res), ";".join(coq_row(r) for r in rows),
                                             ";".join("(%s,%s,%s)" % (N(a), N(l), N(h)) for a, l, h in heights)))
    return "[" + ";".join(out) + "]"


# ---------------------------------------------------------------- generators

def op(a, l, seq, bl, p=0, b=1, c=0, idf="s", src=None):
    d = {"a": a, "l": l, "seq": seq, "bl": bl, "p": p, "b": b, "c": c, "id": idf}
    if src is not None:
        d["src"] = src
    return d


def chain(ops, a, l, flags, start=0):
    """Append an honest chain for log (a,l): one op per entry of `flags` (prune flag), seq from
    `start`, each linking to its predecessor. Returns the indices."""
    idx = []
    prev = None
    for k, p in enumerate(flags):
        seq = start + k
        bl = None if seq == 0 else (["o", prev] if prev is not None else ["b", 0])
        ops.append(op(a, l, seq, bl, p=p))
        prev = len(ops) - 1
        idx.append(prev)
    return idx


def single_log_permutations(flags):
    """All delivery orders of one honest log with the given prune flags."""
    ops = []
    idx = chain(ops, 0, 0, flags)
    for perm in itertools.permutations(idx):
        yield {"na": 1, "nl": 1, "ops": ops, "ds": list(perm)}


def random_history(rng, big=False, bad_ids=False, prune_p=0.25, late_p=0.3):
    na = rng.randint(1, 3)
    nl = rng.randint(1, 2)
    ops = []
    honest = []
    for a in range(na):
        for l in range(nl):
            if rng.random() < 0.15:
                continue
            n = rng.randint(1, 9 if big else 5)
            prev = None
            seq = 0 if rng.random() < 0.85 else rng.randint(1, 4)
            for _k in range(n):
                p = 1 if rng.random() < prune_p else 0
                bl = None if seq == 0 else (["o", prev] if prev is not None else ["b", rng.randrange(4)])
                fault = rng.random()
                if seq > 0 and fault < 0.06:
                    bl = ["b", rng.randrange(4)]                      # wrong backlink, honest signature
                elif seq > 0 and fault < 0.10 and len(ops) > 0:
                    bl = ["o", rng.randrange(len(ops))]               # links to some other operation
                elif fault < 0.12:
                    bl = None if bl is not None else ["b", 1]         # seq/backlink inconsistent: not valid
                ops.append(op(a, l, seq, bl, p=p, b=0 if rng.random() < 0.2 else 1))
                prev = len(ops) - 1
                honest.append(prev)
                seq += 1
                if rng.random() < 0.12:
                    seq += rng.randint(1, 3)                           # gap (valid only with prune flag)
    extra = []
    for i in list(honest):
        r = rng.random()
        o = ops[i]
        if r < 0.12:
            # forged copy in the same slot (claims the author, fails validation), often prune-flagged
            ops.append(op(o["a"], o["l"], o["seq"], o["bl"], p=1 if rng.random() < 0.6 else o["p"], b=o["b"],
                          c=rng.randint(1, 5)))
            extra.append(len(ops) - 1)
        elif r < 0.18:
            # forged prune point above the log
            ops.append(op(o["a"], o["l"], o["seq"] + rng.randint(1, 3), ["b", 2], p=1, b=1, c=rng.randint(1, 5)))
            extra.append(len(ops) - 1)
        elif r < 0.24:
            # same header, body stripped (still validates, same hash)
            ops.append(op(o["a"], o["l"], o["seq"], o["bl"], p=o["p"], b=0, src=i))
            extra.append(len(ops) - 1)
        elif bad_ids and r < 0.34:
            ops.append(op(o["a"], o["l"], o["seq"], o["bl"], p=o["p"], b=o["b"], src=i,
                          idf=["j", rng.randrange(4)] if rng.random() < 0.5 else ["o", rng.randrange(len(ops))]))
            extra.append(len(ops) - 1)
    if not ops:
        ops.append(op(0, 0, 0, None))
        honest.append(0)
    ds = honest + extra
    mode = rng.random()
    if mode < 0.35:
        rng.shuffle(ds)
    elif mode < 0.7:
        # mostly in order with a few local swaps (so that long chains do get stored)
        for _ in range(rng.randint(0, 3)):
            if len(ds) > 1:
                i = rng.randrange(len(ds) - 1)
                ds[i], ds[i + 1] = ds[i + 1], ds[i]
    else:
        # per-log order kept, logs interleaved at random, extras inserted at random places
        ds = list(honest)
        for e in extra:
            ds.insert(rng.randint(0, len(ds)), e)
    # duplicates and drops
    for _ in range(rng.randint(0, 3)):
        ds.insert(rng.randint(0, len(ds)), rng.choice(ds))
    if rng.random() < 0.3 and len(ds) > 2:
        del ds[rng.randrange(len(ds))]
    # late re-delivery of everything once more (older prune points after newer ones)
    if rng.random() < late_p:
        tail = list(honest)
        rng.shuffle(tail)
        ds += tail[: rng.randint(1, len(tail))]
    return {"na": na, "nl": nl, "ops": ops, "ds": ds}


def boundary_cases():
    """Sequence numbers at the u32 boundary."""
    m = U32MAX
    # prune point at MAX, then a non-prune operation of the same log: past.seq_num + 1 overflows
    ops = [op(0, 0, 0, None), op(0, 0, m, ["b", 0], p=1), op(0, 0, 5, ["b", 1], p=0), op(0, 0, 3, ["b", 1], p=1)]
    yield {"na": 1, "nl": 1, "ops": ops, "ds": [0, 1, 3, 2]}
    yield {"na": 1, "nl": 1, "ops": ops, "ds": [1, 3, 1, 0]}
    ops = [op(0, 0, m - 1, ["b", 0], p=1), op(0, 0, m, ["o", 0], p=0), op(0, 0, m, ["o", 0], p=1), op(0, 0, 0, None)]
    yield {"na": 1, "nl": 1, "ops": ops, "ds": [0, 1, 2, 3]}
    yield {"na": 1, "nl": 1, "ops": ops, "ds": [0, 2, 1]}


def shrink(case):
    ds = case["ds"]
    for i in range(len(ds)):
        yield dict(case, ds=ds[:i] + ds[i + 1:])


def distribution(cases, impl):
    res = {}
    wfc = 0
    for i, c in enumerate(cases):
        if wf(c):
            wfc += 1
        line = impl.get(i)
        if not line:
            continue
        for st in line.split(" ; ")[1:]:
            r = st.split("/")[0]
            res[r] = res.get(r, 0) + 1
    lens = [len(c["ds"]) for c in cases] or [0]
    return {"deliveries_max": max(lens), "deliveries_mean": round(sum(lens) / len(lens), 1), "results": dict(sorted(res.items())),
            "cases_satisfying_wf_history": wfc}
