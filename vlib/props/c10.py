"""C10 — Store transactions are atomic and serialized under any abort point."""
import itertools

ID = "C10"
HARNESS_PKG = "h_c10"
COQ_IMPORTS = "From PV Require Import Model.Tx Oracle.C10."
COQ_SHARD = 60
TECHNIQUE = ("Coq proof over a labelled transition system of the transaction-permit protocol (invariant by induction over arbitrary "
             "traces of program steps, cancellations and detached-rollback-task steps) + schedule-driven differential correspondence "
             "of the Gallina model with the real SqliteStore")
LEVEL_TEXT = ("PARTIAL. Proved in Coq for every program assignment and every trace (any interleaving, a cancel point before every "
              "instruction incl. inside begin/commit/rollback, the detached rollback task of TransactionPermit::drop as its own thread; "
              "no bound): C10_mutual_exclusion (one permit owner), C10_serializable + C10_committed_exactly (db = committed transactions "
              "applied in commit order), C10_aborted_leave_no_trace + C10_quiescent_free, C10_outcome_faithful (the assert/panics/"
              "TransactionMissing of the API are unreachable), C10_no_permanent_block + C10_step_decreases (the owner always has an "
              "enabled non-cancel step and every step decreases a measure). The theorems are about the permit protocol "
              "(semaphore, tx slot, drop handler, tx! macro); SQLite's own atomicity/isolation, tokio Semaphore/Mutex (FIFO hand-off) "
              "and sqlx 'dropped Transaction = rollback' are ASSUMED by the model. The model is tied to p2panda-store/src/sqlite.rs and "
              "macros.rs on every run: hand-polled task futures on a real SqliteStore (in-memory and temp-file), the schedule of the "
              "scenario replayed label by label through cfg-gated schedule points, tokens + final rows + probe compared with the model, "
              "and the proved-sound observation oracle evaluated on the implementation's output.")
LEVEL_NOTE = ("Trusted: Coq kernel + vm_compute; hand-written model; harness/python glue; schedule-point hooks (add-only, cfg-gated). "
              "Assumed, exercised only by the correspondence runs: SQLite atomicity/isolation, sqlx commit/rollback/drop semantics, tokio "
              "Semaphore FIFO hand-off and Mutex, tokio::spawn running the detached task. Not modelled: failing pool.begin()/commit()/"
              "rollback() (sqlx errors), API misuse (store.tx without a permit, several transactions per permit), runtime shutdown.")
ASSUMPTIONS = ["SQLite executes a committed sqlx transaction atomically and isolates uncommitted writes (assumed; observed through mid-run reads in file mode)",
               "sqlx: a Transaction dropped without commit is rolled back; commit/rollback calls succeed",
               "tokio Semaphore(1) hands a released permit to the first queued waiter; a dropped Acquire returns an assigned permit; tokio::spawn eventually runs the rollback task",
               "one transaction per task, keys distinct across tasks (needed only for aborted_leave_no_trace)"]
TRUSTED = ["modelled not verified: SQLite, sqlx, tokio primitives (see assumptions); cancellation inside a single SQL statement is covered only as before/after"]
RULE = ("quick: all schedules of 2 tasks over a fixed small program set up to length 7 that follow a mini-simulator's enabled labels "
        "(sampled), plus ~260 random scenarios (2-4 tasks, 0-3 writes, commit/rollback/drop/error, cancel points anywhere incl. while "
        "waiting/granted/inside commit, rollback-task steps interleaved, disabled labels mixed in), in-memory and temp-file stores; "
        "thorough: ~2600 random scenarios up to 6 tasks. non-trivial = some task had to wait, some transaction committed and some "
        "was aborted (cancel/drop/error/rollback)")
NONTRIVIAL_FLOOR = 20
HARNESS_TIMEOUT = 1500

FINS = {"c": "FCommit", "r": "FRollback", "d": "FDrop", "e": "FError"}


# ------------------------------------------------------------------------------------------------
# A light simulator used ONLY to bias the generator towards enabled labels (the deciding model is
# the Gallina one; a mistake here merely produces more skipped labels).
# ------------------------------------------------------------------------------------------------
class Sim:
    def __init__(self, progs):
        self.progs = progs
        n = len(progs)
        self.pc = ["init"] * n      # init wait granted hold commit rollback done
        self.k = [0] * n
        self.rb = [0] * n           # 0 none, 1 start, 2 rolling, 3 done
        self.avail = True
        self.queue = []

    def release(self):
        if self.queue:
            j = self.queue.pop(0)
            self.pc[j] = "granted"
        else:
            self.avail = True

    def enabled(self):
        out = []
        for i, p in enumerate(self.pc):
            if p not in ("wait", "done"):
                out.append("S%d" % i)
            if p != "done":
                out.append("C%d" % i)
            if self.rb[i] in (1, 2):
                out.append("R%d" % i)
        return out

    def apply(self, lab):
        if lab == "Q":
            return
        kind, i = lab[0], int(lab[1:])
        if i >= len(self.pc):
            return
        p = self.pc[i]
        if kind == "S":
            if p == "init":
                if self.avail:
                    self.avail = False
                    self.pc[i] = "granted"
                else:
                    self.queue.append(i)
                    self.pc[i] = "wait"
            elif p == "granted":
                self.pc[i] = "hold"
            elif p == "hold":
                fin, ws = self.progs[i]
                if self.k[i] < len(ws):
                    self.k[i] += 1
                elif fin == "c":
                    self.pc[i] = "commit"
                elif fin == "r":
                    self.pc[i] = "rollback"
                else:
                    self.pc[i] = "done"
                    self.rb[i] = 1
            elif p in ("commit", "rollback"):
                self.pc[i] = "done"
                self.release()
        elif kind == "C":
            if p == "done":
                return
            self.pc[i] = "done"
            if p == "wait":
                self.queue.remove(i)
            elif p == "granted":
                self.release()
            elif p in ("hold", "commit", "rollback"):
                self.rb[i] = 1
        elif kind == "R":
            if self.rb[i] == 1:
                self.rb[i] = 2
            elif self.rb[i] == 2:
                self.rb[i] = 3
                self.release()


def rand_progs(rng, n, maxw):
    progs, key = [], 1
    for _ in range(n):
        fin = rng.choice("ccccrde")
        ws = []
        for _ in range(rng.randint(0, maxw)):
            ws.append(key)
            key += 1
        progs.append([fin, ws])
    return progs


def rand_schedule(rng, progs, mode, maxlen, p_cancel, p_noise):
    sim = Sim(progs)
    n = len(progs)
    labs = []
    while len(labs) < maxlen:
        en = sim.enabled()
        if not en:
            break
        r = rng.random()
        if r < p_noise:
            lab = rng.choice(["S", "C", "R"]) + str(rng.randrange(n))
            if lab[0] == "C" and rng.random() < 0.7:
                continue
        else:
            steps = [l for l in en if l[0] != "C"]
            cancels = [l for l in en if l[0] == "C"]
            if cancels and (not steps or rng.random() < p_cancel):
                lab = rng.choice(cancels)
            else:
                # prefer starting other tasks while somebody holds the permit (contention)
                inits = [l for l in steps if l[0] == "S" and sim.pc[int(l[1:])] == "init"]
                if inits and not sim.avail and rng.random() < 0.5:
                    lab = rng.choice(inits)
                else:
                    lab = rng.choice(steps)
        labs.append(lab)
        sim.apply(lab)
        if mode == "f" and rng.random() < 0.12:
            labs.append("Q")
    return labs


def gen(tier, rng):
    # (i) systematic: two tasks, fixed programs, every schedule prefix built from enabled labels (sampled)
    small = [[["c", [1]], ["c", [2]]], [["c", [1]], ["d", [2]]], [["e", [1]], ["c", [2]]], [["r", [1]], ["c", [2]]],
             [["d", []], ["c", [2]]], [["c", [1, 2]], ["r", [3]]]]
    depth, per_set = (7, 25) if tier == "quick" else (9, 150)
    for progs in small:
        leaves = []
        stack = [([], Sim(progs))]
        while stack and len(leaves) < 40 * per_set:
            labs, sim = stack.pop()
            en = sim.enabled()
            if len(labs) == depth or not en:
                leaves.append(labs)
                continue
            rng.shuffle(en)
            for lab in en[: 2 if len(labs) > 2 else len(en)]:
                s2 = Sim(progs)
                s2.__dict__.update({k: (list(v) if isinstance(v, list) else v) for k, v in sim.__dict__.items()})
                s2.apply(lab)
                stack.append((labs + [lab], s2))
        for labs in rng.sample(leaves, min(per_set, len(leaves))):
            yield {"mode": "m" if rng.random() < 0.6 else "f", "progs": progs, "labels": labs}
    # (ii) random structured scenarios
    nrand, maxn, maxw, maxlen = (260, 4, 3, 40) if tier == "quick" else (2600, 6, 4, 90)
    for _ in range(nrand):
        n = rng.randint(2, maxn)
        progs = rand_progs(rng, n, maxw)
        mode = "m" if rng.random() < 0.55 else "f"
        labs = rand_schedule(rng, progs, mode, rng.randint(6, maxlen), rng.choice([0.03, 0.1, 0.25]), rng.choice([0.0, 0.1, 0.25]))
        yield {"mode": mode, "progs": progs, "labels": labs}


def harness_line(case):
    ps = " ; ".join(" ".join([p[0]] + [str(k) for k in p[1]]) for p in case["progs"])
    return "%s ; %s ; %s" % (case["mode"], ps, " ".join(case["labels"]))


def _nl(xs):
    return "[" + ";".join("%d%%N" % x for x in xs) + "]"


def _progs(case):
    return "[" + ";".join("(%s, %s)" % (_nl(p[1]), FINS[p[0]]) for p in case["progs"]) + "]"


def _labels(case):
    out = []
    for l in case["labels"]:
        if l == "Q":
            out.append("HQ")
        else:
            out.append({"S": "HS", "C": "HC", "R": "HR"}[l[0]] + " " + l[1:])
    return "[" + ";".join(out) + "]"


def coq_model(case):
    return "model_line %s %s" % (_progs(case), _labels(case))


TOK = {"G": "TG", "W": "TW", "w": "Tw", "B": "TB", "I": "TI", "t": "Tt", "K": "TK", "R": "TR", "D": "TD", "E": "TE",
       "-": "Tnone", "c": "Tc", "s": "Ts", "r": "Tr"}


def _parse(impl):
    parts = [p.strip() for p in impl.split("|")]
    if len(parts) != 3:
        return None
    toks = parts[0].split()
    rows = [int(t) for t in parts[1].split(",") if t]
    return toks, rows, parts[2]


def coq_oracle(case, impl):
    pr = _parse(impl)
    if pr is None:
        return "false"
    toks, rows, probe = pr
    obs = []
    for t in toks:
        if t in TOK:
            obs.append(TOK[t])
        elif t.startswith("q") and all(x.isdigit() for x in t[1:].split(",") if x) and "!" not in t:
            obs.append("Tq " + _nl([int(x) for x in t[1:].split(",") if x]))
        else:
            obs.append("Tbad")
    return "check %s %s [%s] %s %s" % (_progs(case), _labels(case), ";".join(obs), _nl(rows), "true" if probe == "P" else "false")


def nontrivial(case, impl):
    pr = _parse(impl)
    if pr is None:
        return False
    toks = pr[0]
    return "W" in toks and "K" in toks and any(t in toks for t in ("c", "D", "E", "R"))


def shrink(case):
    labs = case["labels"]
    for i in range(len(labs)):
        yield {"mode": case["mode"], "progs": case["progs"], "labels": labs[:i] + labs[i + 1:]}
    n = len(case["progs"])
    if n > 1 and not any(l != "Q" and int(l[1:]) == n - 1 for l in labs):
        yield {"mode": case["mode"], "progs": case["progs"][:-1], "labels": labs}
    for i, p in enumerate(case["progs"]):
        if p[1]:
            q = [list(x) for x in case["progs"]]
            q[i] = [p[0], p[1][:-1]]
            yield {"mode": case["mode"], "progs": q, "labels": labs}
    if case["mode"] == "f" and "Q" not in labs:
        yield {"mode": "m", "progs": case["progs"], "labels": labs}


def distribution(cases, impl):
    hist, modes, ns = {}, {}, {}
    for i, c in enumerate(cases):
        modes[c["mode"]] = modes.get(c["mode"], 0) + 1
        ns[len(c["progs"])] = ns.get(len(c["progs"]), 0) + 1
        pr = _parse(impl.get(i, "") or "")
        if pr:
            for t in pr[0]:
                k = "q" if t.startswith("q") else t
                hist[k] = hist.get(k, 0) + 1
    lens = [len(c["labels"]) for c in cases]
    return {"modes": modes, "tasks": {str(k): v for k, v in sorted(ns.items())}, "tokens": dict(sorted(hist.items())),
            "max_labels": max(lens), "mean_labels": round(sum(lens) / len(lens), 1)}


REGISTERED = True
