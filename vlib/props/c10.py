"""C10 — Store transactions are atomic and serialized under any abort point."""
import itertools

ID = "C10"
HARNESS_PKG = "h_c10"
COQ_IMPORTS = "From PV Require Import Model.Tx Model.TxSlot Oracle.C10 Oracle.C10Slot."
COQ_SHARD = 60
TECHNIQUE = ("Coq proof over a labelled transition system of the transaction-permit protocol (invariant by induction over arbitrary "
             "traces of program steps, cancellations and detached-rollback-task steps) + schedule-driven differential correspondence "
             "of the Gallina model with the real SqliteStore; slot-mutex refinement (one transaction + helper statements in flight + "
             "rollback task + following transaction) proved for all traces and replayed through a schedule point inside SqliteStore::tx")
LEVEL_TEXT = ("PARTIAL. Proved in Coq for every program assignment and every trace (any interleaving, a cancel point before every "
              "instruction incl. inside begin/commit/rollback, the detached rollback task of TransactionPermit::drop as its own thread; "
              "no bound): C10_mutual_exclusion (one permit owner), C10_serializable + C10_committed_exactly (db = committed transactions "
              "applied in commit order), C10_aborted_leave_no_trace + C10_quiescent_free, C10_outcome_faithful (the assert/panics/"
              "TransactionMissing of the API are unreachable), C10_no_permanent_block + C10_step_decreases (the owner always has an "
              "enabled non-cancel step and every step decreases a measure). Slot-mutex refinement (Model/TxSlot.v: a statement of the "
              "running transaction issued by a helper sharing the store clone = lock slot; execute; unlock, so the permit can be dropped "
              "while the slot mutex is held; the real drop handler awaits the mutex inside the detached task), every configuration and trace: "
              "C10_aborted_tx_is_rolled_back_before_permit_release, C10_next_begin_finds_empty_slot, C10_slot_no_panic, "
              "C10_slot_rows_only_from_committed, C10_slot_progress, C10_slot_step_decreases; C10_slot_variant_try_lock_refuted is a regression lemma about the "
              "try_lock variant of the drop handler (not a finding). The theorems are about the permit protocol "
              "(semaphore, tx slot, drop handler, tx! macro); SQLite's own atomicity/isolation, tokio Semaphore/Mutex (FIFO hand-off) "
              "and sqlx 'dropped Transaction = rollback' are ASSUMED by the model. The model is tied to p2panda-store/src/sqlite.rs and "
              "macros.rs on every run: hand-polled task futures on a real SqliteStore (in-memory and temp-file), the schedule of the "
              "scenario replayed label by label through cfg-gated schedule points, tokens + final rows + probe compared with the model, "
              "and the proved-sound observation oracle evaluated on the implementation's output.")
LEVEL_NOTE = ("Trusted: Coq kernel + vm_compute; hand-written model; harness/python glue; schedule-point hooks (add-only, cfg-gated). "
              "Assumed, exercised only by the correspondence runs: SQLite atomicity/isolation, sqlx commit/rollback/drop semantics, tokio "
              "Semaphore FIFO hand-off and Mutex, tokio::spawn running the detached task. The slot refinement covers one transaction with one helper and one follower (T acquires first), not N concurrent helpers; a helper "
              "statement STARTED after the transaction's permit was released is API misuse (documented by SqliteStore) and out of scope. "
              "Not modelled: failing pool.begin()/commit()/"
              "rollback() (sqlx errors), API misuse (store.tx without a permit, several transactions per permit), runtime shutdown.")
ASSUMPTIONS = ["SQLite executes a committed sqlx transaction atomically and isolates uncommitted writes (assumed; observed through mid-run reads in file mode)",
               "sqlx: a Transaction dropped without commit is rolled back; commit/rollback calls succeed",
               "tokio Semaphore(1) hands a released permit to the first queued waiter; a dropped Acquire returns an assigned permit; tokio::spawn eventually runs the rollback task",
               "one transaction per task, keys distinct across tasks (needed only for aborted_leave_no_trace)"]
TRUSTED = ["modelled not verified: SQLite, sqlx, tokio primitives (see assumptions); cancellation inside a single SQL statement is covered only as before/after"]
RULE = ("quick: all schedules of 2 tasks over a fixed small program set up to length 7 that follow a mini-simulator's enabled labels "
        "(sampled), plus ~205 random scenarios (2-4 tasks, 0-3 writes, commit/rollback/drop/error, cancel points anywhere incl. while "
        "waiting/granted/inside commit, rollback-task steps interleaved, disabled labels mixed in), in-memory and temp-file stores; "
        "slot scenarios (78 quick / 708 thorough): transaction T (commit/rollback/drop/error, future dropped anywhere) with a helper future "
        "that issues T's statements through the real associate()/store.tx and is parked INSIDE the slot-mutex critical section "
        "(schedule point tx_locked) while T's permit is dropped / T commits / rolls back, then helper finishes, rollback task runs, "
        "a following transaction begins + commits, probe; "
        "thorough: ~2600 random scenarios up to 6 tasks. non-trivial = some task had to wait, some transaction committed and some "
        "was aborted (cancel/drop/error/rollback); slot scenario: a helper statement was parked in the critical section and a "
        "transaction committed afterwards (distribution reports how many dropped the permit with the statement in flight)")
NONTRIVIAL_FLOOR = 20
HARNESS_TIMEOUT = 1500

FINS = {"c": "FCommit", "r": "FRollback", "d": "FDrop", "e": "FError"}


# ------------------------------------------------------------------------------------------------
# A light simulator used ONLY to bias the generator towards enabled labels (the deciding model is
# the Gallina one; a mistake here merely produces more skipped labels).
# ------------------------------------------------------------------------------------------------
class Sim:
    def __init__(self, progs):
        self.progs = progs
        n = len(progs)
        self.pc = ["init"] * n      # init wait granted hold commit rollback done
        self.k = [0] * n
        self.rb = [0] * n           # 0 none, 1 start, 2 rolling, 3 done
        self.avail = True
        self.queue = []

    def release(self):
        if self.queue:
            j = self.queue.pop(0)
            self.pc[j] = "granted"
        else:
            self.avail = True

    def enabled(self):
        out = []
        for i, p in enumerate(self.pc):
            if p not in ("wait", "done"):
                out.append("S%d" % i)
            if p != "done":
                out.append("C%d" % i)
            if self.rb[i] in (1, 2):
                out.append("R%d" % i)
        return out

    def apply(self, lab):
        if lab == "Q":
            return
        kind, i = lab[0], int(lab[1:])
        if i >= len(self.pc):
            return
        p = self.pc[i]
        if kind == "S":
            if p == "init":
                if self.avail:
                    self.avail = False
                    self.pc[i] = "granted"
                else:
                    self.queue.append(i)
                    self.pc[i] = "wait"
            elif p == "granted":
                self.pc[i] = "hold"
            elif p == "hold":
                fin, ws = self.progs[i]
                if self.k[i] < len(ws):
                    self.k[i] += 1
                elif fin == "c":
                    self.pc[i] = "commit"
                elif fin == "r":
                    self.pc[i] = "rollback"
                else:
                    self.pc[i] = "done"
                    self.rb[i] = 1
            elif p in ("commit", "rollback"):
                self.pc[i] = "done"
                self.release()
        elif kind == "C":
            if p == "done":
                return
            self.pc[i] = "done"
            if p == "wait":
                self.queue.remove(i)
            elif p == "granted":
                self.release()
            elif p in ("hold", "commit", "rollback"):
                self.rb[i] = 1
        elif kind == "R":
            if self.rb[i] == 1:
                self.rb[i] = 2
            elif self.rb[i] == 2:
                self.rb[i] = 3
                self.release()


class SlotSim:
    """Mini-simulator of Model/TxSlot.v (generation/shrinking only): task 0 = T with a helper, task 1 = N."""

    def __init__(self, progs, helper):
        self.progs, self.hw = progs, helper
        self.pc = ["init", "init"]
        self.k = [0, 0]
        self.rb = 0
        self.avail = True
        self.mtx = False
        self.hk = 0
        self.locked = False

    def t_live(self):
        return self.pc[0] in ("granted", "hold", "commit", "rollback") or self.rb in (1, 2)

    def release(self):
        if self.pc[1] == "wait":
            self.pc[1] = "granted"
        else:
            self.avail = True

    def needs_mutex(self, i):
        p = self.pc[i]
        if p == "granted":
            return True
        if p == "hold":
            fin, ws = self.progs[i]
            return self.k[i] < len(ws) or fin in "cre"
        return False

    def enabled(self):
        out = []
        p = self.pc[0]
        if p == "init":
            if self.avail:
                out.append("S0")
        elif p != "done" and not (self.mtx and self.needs_mutex(0)):
            out.append("S0")
        if p != "done":
            out.append("C0")
        p = self.pc[1]
        if p == "init" or (p in ("granted", "hold", "commit") and not (self.mtx and self.needs_mutex(1))):
            out.append("S1")
        if (self.rb == 1 and not self.mtx) or self.rb == 2:
            out.append("R0")
        if self.locked or (self.hk < len(self.hw) and not self.mtx and self.t_live()):
            out.append("H0")
        return out

    def drop_in_flight(self, lab):
        """does `lab` drop T's permit while the helper's statement is in flight?"""
        if not self.locked or self.pc[0] not in ("hold", "commit", "rollback"):
            return False
        if lab == "C0":
            return True
        fin, ws = self.progs[0]
        return lab == "S0" and self.pc[0] == "hold" and self.k[0] >= len(ws) and fin == "d"

    def apply(self, lab):
        if lab == "Q":
            return
        if lab == "H0":
            if self.locked:
                self.locked, self.mtx = False, False
                self.hk += 1
            else:
                self.locked, self.mtx = True, True
            return
        if lab == "R0":
            if self.rb == 1:
                self.rb = 2
            elif self.rb == 2:
                self.rb = 3
                self.release()
            return
        kind, i = lab[0], int(lab[1:])
        p = self.pc[i]
        if kind == "C":
            self.pc[i] = "done"
            if p == "granted":
                self.release()
            elif p in ("hold", "commit", "rollback"):
                self.rb = 1
            return
        if p == "init":
            if self.avail:
                self.avail = False
                self.pc[i] = "granted"
            else:
                self.pc[i] = "wait"
        elif p == "granted":
            self.pc[i] = "hold"
        elif p == "hold":
            fin, ws = self.progs[i]
            if self.k[i] < len(ws):
                self.k[i] += 1
            elif fin == "c":
                self.pc[i] = "commit"
            elif fin == "r":
                self.pc[i] = "rollback"
            else:
                self.pc[i] = "done"
                self.rb = 1
        elif p in ("commit", "rollback"):
            self.pc[i] = "done"
            self.release()


def slot_valid(case):
    """every label of a slot scenario is enabled in the mini-simulator (T begins first, no step that would queue on the
    slot mutex, no helper statement started outside T's permit)"""
    sim = SlotSim(case["progs"], case["helper"])
    for lab in case["labels"]:
        if lab == "Q":
            continue
        if lab not in sim.enabled():
            return False
        sim.apply(lab)
    return True


def slot_case(rng, mode, maxw, maxh):
    """T (any ending, cancellable anywhere) + helper statements parked inside the slot-mutex critical section + the
    following transaction N; biased towards dropping T's permit while a helper statement is in flight."""
    key = 1
    ws = list(range(key, key + rng.randint(0, maxw)))
    key += len(ws)
    hw = list(range(key + 10, key + 10 + rng.randint(1, maxh)))
    nws = list(range(key + 20, key + 20 + rng.randint(0, 2)))
    progs = [[rng.choice("cdderc"), ws], ["c", nws]]
    sim = SlotSim(progs, hw)
    labs = ["S0"]
    sim.apply("S0")
    p_cancel = rng.choice([0.05, 0.2, 0.4])
    n_start = rng.randint(1, 9)
    for step in range(40):
        en = sim.enabled()
        if step < n_start and "S1" in en and sim.pc[1] == "init" and [l for l in en if l not in ("C0", "S1")]:
            en.remove("S1")
        if not [l for l in en if l != "C0"]:
            break
        if sim.locked:
            # a helper statement is in flight: drop the permit now, or let somebody else move first
            r = rng.random()
            drops = [l for l in ("S0", "C0") if l in en and sim.drop_in_flight(l)]
            if drops and r < 0.55:
                lab = drops[0] if rng.random() < 0.7 else drops[-1]
            elif "S0" in en and r < 0.8:
                lab = "S0"
            else:
                lab = rng.choice([l for l in en if l != "C0"])
        else:
            cands = [l for l in en if l != "C0"]
            if "H0" in cands and rng.random() < 0.5:
                lab = "H0"
            elif "C0" in en and sim.pc[0] != "init" and rng.random() < p_cancel * 0.3:
                lab = "C0"
            else:
                lab = rng.choice(cands)
        labs.append(lab)
        sim.apply(lab)
        if mode == "f" and rng.random() < 0.1:
            labs.append("Q")
    return {"mode": mode, "progs": progs, "helper": hw, "labels": labs}


def rand_progs(rng, n, maxw):
    progs, key = [], 1
    for _ in range(n):
        fin = rng.choice("ccccrde")
        ws = []
        for _ in range(rng.randint(0, maxw)):
            ws.append(key)
            key += 1
        progs.append([fin, ws])
    return progs


def rand_schedule(rng, progs, mode, maxlen, p_cancel, p_noise):
    sim = Sim(progs)
    n = len(progs)
    labs = []
    while len(labs) < maxlen:
        en = sim.enabled()
        if not en:
            break
        r = rng.random()
        if r < p_noise:
            lab = rng.choice(["S", "C", "R"]) + str(rng.randrange(n))
            if lab[0] == "C" and rng.random() < 0.7:
                continue
        else:
            steps = [l for l in en if l[0] != "C"]
            cancels = [l for l in en if l[0] == "C"]
            if cancels and (not steps or rng.random() < p_cancel):
                lab = rng.choice(cancels)
            else:
                # prefer starting other tasks while somebody holds the permit (contention)
                inits = [l for l in steps if l[0] == "S" and sim.pc[int(l[1:])] == "init"]
                if inits and not sim.avail and rng.random() < 0.5:
                    lab = rng.choice(inits)
                else:
                    lab = rng.choice(steps)
        labs.append(lab)
        sim.apply(lab)
        if mode == "f" and rng.random() < 0.12:
            labs.append("Q")
    return labs


def gen(tier, rng):
    # (i) systematic: two tasks, fixed programs, every schedule prefix built from enabled labels (sampled)
    small = [[["c", [1]], ["c", [2]]], [["c", [1]], ["d", [2]]], [["e", [1]], ["c", [2]]], [["r", [1]], ["c", [2]]],
             [["d", []], ["c", [2]]], [["c", [1, 2]], ["r", [3]]]]
    depth, per_set = (7, 25) if tier == "quick" else (9, 150)
    for progs in small:
        leaves = []
        stack = [([], Sim(progs))]
        while stack and len(leaves) < 40 * per_set:
            labs, sim = stack.pop()
            en = sim.enabled()
            if len(labs) == depth or not en:
                leaves.append(labs)
                continue
            rng.shuffle(en)
            for lab in en[: 2 if len(labs) > 2 else len(en)]:
                s2 = Sim(progs)
                s2.__dict__.update({k: (list(v) if isinstance(v, list) else v) for k, v in sim.__dict__.items()})
                s2.apply(lab)
                stack.append((labs + [lab], s2))
        for labs in rng.sample(leaves, min(per_set, len(leaves))):
            yield {"mode": "m" if rng.random() < 0.6 else "f", "progs": progs, "labels": labs}
    # (ii) random structured scenarios
    # (iii) slot scenarios: a helper statement of the running transaction in flight (slot mutex held) at the drop
    fixed = [("d", [1], ["S0", "S0", "S0", "H0", "S0", "H0", "R0", "R0", "S1", "S1", "S1", "S1", "S1"]),
             ("c", [1], ["S0", "S0", "S0", "H0", "C0", "S1", "H0", "R0", "R0", "S1", "S1", "S1", "S1"]),
             ("e", [], ["S0", "S0", "H0", "C0", "H0", "S1", "R0", "R0", "S1", "S1", "S1", "S1"]),
             ("r", [1], ["S0", "S0", "S0", "S1", "S0", "H0", "C0", "H0", "R0", "R0", "S1", "S1", "S1", "S1"])]
    for fin, ws, labs in fixed:
        for mode in "mf":
            yield {"mode": mode, "progs": [[fin, ws], ["c", [2]]], "helper": [5, 6], "labels": labs}
    for _ in range(70 if tier == "quick" else 700):
        yield slot_case(rng, "m" if rng.random() < 0.55 else "f", 2, 3)
    nrand, maxn, maxw, maxlen = (205, 4, 3, 40) if tier == "quick" else (2600, 6, 4, 90)
    for _ in range(nrand):
        n = rng.randint(2, maxn)
        progs = rand_progs(rng, n, maxw)
        mode = "m" if rng.random() < 0.55 else "f"
        labs = rand_schedule(rng, progs, mode, rng.randint(6, maxlen), rng.choice([0.03, 0.1, 0.25]), rng.choice([0.0, 0.1, 0.25]))
        yield {"mode": mode, "progs": progs, "labels": labs}


def harness_line(case):
    hs = [case.get("helper", [])] + [[] for _ in case["progs"][1:]]
    ps = " ; ".join(" ".join([p[0]] + [str(k) for k in p[1]] + (["h"] + [str(k) for k in h] if h else []))
                    for p, h in zip(case["progs"], hs))
    return "%s ; %s ; %s" % (case["mode"], ps, " ".join(case["labels"]))


def _nl(xs):
    return "[" + ";".join("%d%%N" % x for x in xs) + "]"


def _progs(case):
    return "[" + ";".join("(%s, %s)" % (_nl(p[1]), FINS[p[0]]) for p in case["progs"]) + "]"


def _labels(case):
    out = []
    for l in case["labels"]:
        if l == "Q":
            out.append("HQ")
        else:
            out.append({"S": "HS", "C": "HC", "R": "HR"}[l[0]] + " " + l[1:])
    return "[" + ";".join(out) + "]"


def _is_slot(case):
    return "helper" in case


def _xlabels(case):
    out = []
    for l in case["labels"]:
        if l == "Q":
            out.append("XQ")
        elif l[0] == "H":
            out.append("XH")
        else:
            out.append({"S": "XS", "C": "XC", "R": "XR"}[l[0]] + " " + l[1:])
    return "[" + ";".join(out) + "]"


def _slot_args(case):
    t, n = case["progs"]
    return "(%s, %s) %s %s %s" % (_nl(t[1]), FINS[t[0]], _nl(case["helper"]), _nl(n[1]), _xlabels(case))


def coq_model(case):
    if _is_slot(case):
        return "slot_model_line " + _slot_args(case)
    return "model_line %s %s" % (_progs(case), _labels(case))


TOK = {"G": "TG", "W": "TW", "w": "Tw", "B": "TB", "I": "TI", "t": "Tt", "K": "TK", "R": "TR", "D": "TD", "E": "TE",
       "-": "Tnone", "c": "Tc", "s": "Ts", "r": "Tr"}


XTOK = {"L": "XoL", "hI": "XoI", "hM": "XoM", "l": "Xol"}


def _parse(impl):
    parts = [p.strip() for p in impl.split("|")]
    if len(parts) != 3:
        return None
    toks = parts[0].split()
    rows = [int(t) for t in parts[1].split(",") if t]
    return toks, rows, parts[2]


def coq_oracle(case, impl):
    pr = _parse(impl)
    if pr is None:
        return "false"
    toks, rows, probe = pr
    if _is_slot(case):
        obs = []
        for t in toks:
            if t in XTOK:
                obs.append(XTOK[t])
            elif t in TOK:
                obs.append("XO " + TOK[t])
            elif t.startswith("q") and all(x.isdigit() for x in t[1:].split(",") if x) and "!" not in t:
                obs.append("XO (Tq %s)" % _nl([int(x) for x in t[1:].split(",") if x]))
            else:
                obs.append("XO Tbad")
        return "slot_check %s [%s] %s %s" % (_slot_args(case), ";".join(obs), _nl(rows), "true" if probe == "P" else "false")
    obs = []
    for t in toks:
        if t in TOK:
            obs.append(TOK[t])
        elif t.startswith("q") and all(x.isdigit() for x in t[1:].split(",") if x) and "!" not in t:
            obs.append("Tq " + _nl([int(x) for x in t[1:].split(",") if x]))
        else:
            obs.append("Tbad")
    return "check %s %s [%s] %s %s" % (_progs(case), _labels(case), ";".join(obs), _nl(rows), "true" if probe == "P" else "false")


def nontrivial(case, impl):
    pr = _parse(impl)
    if pr is None:
        return False
    toks = pr[0]
    if _is_slot(case):
        # a helper statement was parked inside the slot-mutex critical section, and a transaction committed afterwards
        return "L" in toks and "K" in toks[toks.index("L"):]
    return "W" in toks and "K" in toks and any(t in toks for t in ("c", "D", "E", "R"))


def shrink(case):
    if _is_slot(case):
        labs = case["labels"]
        for i in range(len(labs)):
            c = dict(case, labels=labs[:i] + labs[i + 1:])
            if slot_valid(c):
                yield c
        if len(case["helper"]) > 1:
            c = dict(case, helper=case["helper"][:-1])
            if slot_valid(c):
                yield c
        for i, p in enumerate(case["progs"]):
            if p[1]:
                q = [list(x) for x in case["progs"]]
                q[i] = [p[0], p[1][:-1]]
                c = dict(case, progs=q)
                if slot_valid(c):
                    yield c
        if case["mode"] == "f" and "Q" not in labs:
            yield dict(case, mode="m")
        return
    labs = case["labels"]
    for i in range(len(labs)):
        yield {"mode": case["mode"], "progs": case["progs"], "labels": labs[:i] + labs[i + 1:]}
    n = len(case["progs"])
    if n > 1 and not any(l != "Q" and int(l[1:]) == n - 1 for l in labs):
        yield {"mode": case["mode"], "progs": case["progs"][:-1], "labels": labs}
    for i, p in enumerate(case["progs"]):
        if p[1]:
            q = [list(x) for x in case["progs"]]
            q[i] = [p[0], p[1][:-1]]
            yield {"mode": case["mode"], "progs": q, "labels": labs}
    if case["mode"] == "f" and "Q" not in labs:
        yield {"mode": "m", "progs": case["progs"], "labels": labs}


def distribution(cases, impl):
    hist, modes, ns = {}, {}, {}
    slot, in_flight = 0, 0
    for i, c in enumerate(cases):
        if _is_slot(c):
            slot += 1
            sim = SlotSim(c["progs"], c["helper"])
            hit = False
            for lab in c["labels"]:
                if lab != "Q" and lab in sim.enabled():
                    hit = hit or sim.drop_in_flight(lab)
                    sim.apply(lab)
            in_flight += 1 if hit else 0
        modes[c["mode"]] = modes.get(c["mode"], 0) + 1
        ns[len(c["progs"])] = ns.get(len(c["progs"]), 0) + 1
        pr = _parse(impl.get(i, "") or "")
        if pr:
            for t in pr[0]:
                k = "q" if t.startswith("q") else t
                hist[k] = hist.get(k, 0) + 1
    lens = [len(c["labels"]) for c in cases]
    return {"modes": modes, "tasks": {str(k): v for k, v in sorted(ns.items())}, "tokens": dict(sorted(hist.items())),
            "slot_scenarios": slot, "permit_dropped_with_helper_statement_in_flight": in_flight,
            "max_labels": max(lens), "mean_labels": round(sum(lens) / len(lens), 1)}


REGISTERED = True
