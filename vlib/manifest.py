"""MANIFEST.json generation from the property modules, and the setup command."""
import json
import os
import sys

from . import core


def registered():
    ids = []
    d = os.path.join(core.ROOT, "vlib", "props")
    for f in sorted(os.listdir(d)):
        if f.startswith("c") and f.endswith(".py"):
            m = core.load_prop(f[:-3].upper())
            if getattr(m, "REGISTERED", True):
                ids.append(m.ID)
    return ids


def all_property_ids():
    return [json.loads(l)["id"] for l in open(os.path.join(core.ROOT, "properties.jsonl")) if l.strip()]


def write():
    checks = []
    ids = registered()
    for pid in ids:
        m = core.load_prop(pid)
        checks.append({
            "property_id": pid,
            "quick_cmd": "./check %s --tier quick" % pid,
            "thorough_cmd": "./check %s --tier thorough" % pid,
            "evidence_file": "/verif/evidence/%s.json" % pid,
            "replay_cmd_template": "./check %s --replay {path}" % pid,
            "engine": "coq-proof+correspondence",
            "level_claimed": {"category": "proof", "text": m.LEVEL_TEXT, "design_ref": "DESIGN.md §5 " + pid},
            "level_note": m.LEVEL_NOTE,
            "technique": m.TECHNIQUE,
        })
    na_path = os.path.join(core.ROOT, "NOT_APPLICABLE.json")
    na = json.load(open(na_path)) if os.path.exists(na_path) else {}
    not_app = []
    for pid in all_property_ids():
        if pid not in ids:
            not_app.append({"property_id": pid, "reason": na.get(pid, "not claimed yet: check under construction (see DESIGN.md §5 %s for the planned theorem and correspondence)" % pid)})
    hooks_path = os.path.join(core.ROOT, "HOOKS.json")
    hooks = json.load(open(hooks_path))
    man = {
        "version": 1,
        "setup_cmd": "./check --setup",
        "hooks": hooks,
        "engines": [{
            "name": "coq-proof+correspondence",
            "path": "/verif/check",
            "serves_properties": ids,
            "kind_free_text": "Coq 8.16 theorems over hand-written Gallina models (coq/), tied to the code by a differential correspondence run: Rust harness (harness/, built against /repo's working tree with --cfg p2panda_p2panda_verif) vs the model evaluated by vm_compute inside coqc; Gallina property oracle evaluated on implementation observations",
        }],
        "checks": checks,
        "not_applicable": not_app,
        "notes": "See DESIGN.md. Every check rebuilds the harness from /repo's current working tree (cargo, path dependencies) and re-checks the property's Coq theorems on every run.",
    }
    with open(os.path.join(core.ROOT, "MANIFEST.json"), "w") as f:
        json.dump(man, f, indent=1)
        f.write("\n")


def setup():
    """Build everything the registered checks need, offline, from files on disk."""
    core.coq_project()
    ids = registered()
    targets = ["Properties/%s.vo" % i for i in ids]
    rc, o, e = core.sh(["make", "-j%d" % core.NCPU] + targets, cwd=core.COQ, timeout=3000)
    sys.stderr.write(o[-3000:] + e[-3000:])
    if rc != 0:
        print("setup: coq build failed")
        return 1
    pkgs = sorted({core.load_prop(i).HARNESS_PKG for i in ids})
    ok, lg = core.harness_build(pkgs)
    sys.stderr.write(lg[-3000:])
    if not ok:
        print("setup: harness build failed")
        return 1
    print("setup ok: %d properties, %d harness packages" % (len(ids), len(pkgs)))
    return 0
