"""Framework core for the Coq-proof based checks of p2panda (see DESIGN.md §2).

A check of property Cxx =
  (T) build `coq/Properties/Cxx.vo` from scratch dependencies (make) and verify that every
      property theorem in it is closed under the global context (or only uses allow-listed
      standard-library axioms) and that no forbidden vernacular appears anywhere in coq/;
  (C) run generated cases on the real implementation (Rust harness built against $VERIF_REPO,
      default /repo, hooks on) and on the Gallina model (`Eval vm_compute` inside coqc), diff;
  (O) evaluate the Gallina property oracle on the implementation's observations.
The decision table is in DESIGN.md §1.
"""
import hashlib
import importlib
import json
import os
import random
import re
import shutil
import subprocess
import sys
import time
from concurrent.futures import ThreadPoolExecutor

ROOT = os.path.dirname(os.path.dirname(os.path.abspath(__file__)))
REPO = os.path.abspath(os.environ.get("VERIF_REPO", "/repo"))
COQ = os.path.join(ROOT, "coq")
HARNESS = os.path.join(ROOT, "harness")
EVIDENCE = os.path.join(ROOT, "evidence")
REPLAY = os.path.join(ROOT, "replay")
WORK = os.path.join(ROOT, "work")
GUARD = "p2panda_p2panda_verif"
NCPU = os.cpu_count() or 4

# Axioms declared by Coq's standard library that a proof may depend on; anything else printed by
# `Print Assumptions` fails the obligation.  Each use is reported in the evidence file.
STDLIB_AXIOMS = {
    "functional_extensionality_dep",
    "FunctionalExtensionality.functional_extensionality_dep",
    "Coq.Logic.FunctionalExtensionality.functional_extensionality_dep",
    "Eqdep.Eq_rect_eq.eq_rect_eq",
    "Coq.Logic.Eqdep.Eq_rect_eq.eq_rect_eq",
    "eq_rect_eq",
    "classic",
    "Classical_Prop.classic",
    "proof_irrelevance",
    "ProofIrrelevance.proof_irrelevance",
    "JMeq_eq",
    "JMeq.JMeq_eq",
    "propositional_extensionality",
    "PropExtensionality.propositional_extensionality",
}

FORBIDDEN = [
    r"\bAdmitted\b", r"\badmit\b", r"\bAxiom\b", r"\bAxioms\b", r"\bParameter\b", r"\bParameters\b",
    r"\bConjecture\b", r"\bConjectures\b", r"\bAdmit\s+Obligations\b", r"\bUnset\s+Guard\s+Checking\b",
    r"\bUnset\s+Positivity\s+Checking\b", r"\bUnset\s+Universe\s+Checking\b", r"\bbypass_check\b",
    r"\bgive_up\b", r"-type-in-type", r"-impredicative-set", r"\bnative_compute\b",
    r"\bUnset\s+Universe\s+Polymorphism\s+Checking\b",
]
SECTION_ONLY = [r"\bVariable\b", r"\bVariables\b", r"\bHypothesis\b", r"\bHypotheses\b", r"\bContext\b"]


def log(*a):
    print(*a, file=sys.stderr, flush=True)


def sh(cmd, cwd=None, timeout=None, env=None, input=None):
    e = dict(os.environ)
    if env:
        e.update(env)
    p = subprocess.run(cmd, cwd=cwd, shell=isinstance(cmd, str), capture_output=True, text=True,
                       timeout=timeout, env=e, input=input)
    return p.returncode, p.stdout, p.stderr


# ------------------------------------------------------------------------------------------------
# Coq side
# ------------------------------------------------------------------------------------------------

def strip_coq_comments(src):
    """Remove (nested) comments and string literals from Coq source."""
    out = []
    i, depth, n = 0, 0, len(src)
    in_str = False
    while i < n:
        c = src[i]
        if in_str:
            if c == '"':
                in_str = False
            i += 1
            continue
        if src.startswith("(*", i):
            depth += 1
            i += 2
            continue
        if depth > 0 and src.startswith("*)", i):
            depth -= 1
            i += 2
            continue
        if depth > 0:
            if c == "\n":
                out.append("\n")
            i += 1
            continue
        if c == '"':
            in_str = True
            out.append('""')
            i += 1
            continue
        out.append(c)
        i += 1
    return "".join(out)


def lint_coq():
    """Return a list of 'file:line: text' for forbidden vernacular anywhere in coq/."""
    bad = []
    for dp, _dn, fn in os.walk(COQ):
        for f in fn:
            if not f.endswith(".v"):
                continue
            p = os.path.join(dp, f)
            src = strip_coq_comments(open(p).read())
            depth = 0
            for ln, line in enumerate(src.split("\n"), 1):
                for pat in FORBIDDEN:
                    if re.search(pat, line):
                        bad.append("%s:%d: %s" % (os.path.relpath(p, ROOT), ln, line.strip()))
                if depth == 0:
                    for pat in SECTION_ONLY:
                        if re.search(r"^\s*(Local\s+|Global\s+)?" + pat[2:], line):
                            bad.append("%s:%d: outside a section: %s" % (os.path.relpath(p, ROOT), ln, line.strip()))
                if re.match(r"^\s*(Section|Module\s+Type)\s+\w+", line):
                    depth += 1
                elif re.match(r"^\s*End\s+\w+\s*\.", line) and depth > 0:
                    depth -= 1
    for f in ("_CoqProject",):
        p = os.path.join(COQ, f)
        if os.path.exists(p):
            s = open(p).read()
            for pat in (r"-type-in-type", r"-impredicative-set", r"-vos", r"-vok", r"bypass"):
                if re.search(pat, s):
                    bad.append("coq/_CoqProject: %s" % pat)
    return bad


def coq_project():
    """(Re)generate coq/_CoqProject and coq/Makefile from the .v files present."""
    vs = []
    for d in ("Lib", "Model", "Proofs", "Oracle", "Properties"):
        dd = os.path.join(COQ, d)
        if os.path.isdir(dd):
            vs += sorted(os.path.join(d, f) for f in os.listdir(dd) if f.endswith(".v"))
    txt = "-Q . PV\n-arg -w -arg -notation-overridden,-deprecated-hint-without-locality,-deprecated-instance-without-locality\n" + "\n".join(vs) + "\n"
    p = os.path.join(COQ, "_CoqProject")
    old = open(p).read() if os.path.exists(p) else ""
    if old != txt or not os.path.exists(os.path.join(COQ, "Makefile")):
        open(p, "w").write(txt)
        rc, o, e = sh(["coq_makefile", "-f", "_CoqProject", "-o", "Makefile"], cwd=COQ)
        if rc != 0:
            raise RuntimeError("coq_makefile failed: " + o + e)


def parse_assumptions(out, names):
    """Split coqc stdout into one assumption report per `Print Assumptions`."""
    reports = []
    cur = None
    for line in out.split("\n"):
        if line.startswith("Closed under the global context"):
            if cur is not None:
                reports.append(cur)
            reports.append([])
            cur = None
        elif line.startswith("Axioms:"):
            if cur is not None:
                reports.append(cur)
            cur = []
        elif cur is not None:
            m = re.match(r"^([A-Za-z_][\w.']*)\s*(:|$)", line)
            if m and not line.startswith(" "):
                cur.append(m.group(1))
    if cur is not None:
        reports.append(cur)
    return reports


def coq_proofs(prop_id, timeout=1500):
    """Build Properties/<id>.vo (forcing a re-check of the property file itself) and return
    dict(ok, obligations, discharged, theorems=[{name, axioms, ok}], log, cmd)."""
    coq_project()
    target = "Properties/%s.vo" % prop_id
    vfile = os.path.join(COQ, "Properties/%s.v" % prop_id)
    res = {"ok": False, "obligations": 0, "discharged": 0, "theorems": [], "log": "",
           "cmd": "make -C coq -j%d %s (coqc 8.16.1, full .vo build) + Print Assumptions per theorem" % (NCPU, target)}
    if not os.path.exists(vfile):
        res["log"] = "missing " + vfile
        return res
    src = strip_coq_comments(open(vfile).read())
    thms = re.findall(r"^\s*(?:Theorem|Lemma|Corollary)\s+([\w']+)", src, re.M)
    printed = re.findall(r"^\s*Print\s+Assumptions\s+([\w'.]+)\s*\.", src, re.M)
    res["obligations"] = len(thms)
    for ext in (".vo", ".glob", ".vos", ".vok"):
        try:
            os.remove(vfile[:-2] + ext)
        except FileNotFoundError:
            pass
    targets = [target]
    # the oracle (and anything else the case evaluation imports) must be rebuilt in the same make run,
    # otherwise a stale .vo gives "inconsistent assumptions" in coqtop
    if os.path.exists(os.path.join(COQ, "Oracle/%s.v" % prop_id)):
        targets.append("Oracle/%s.vo" % prop_id)
    try:
        mod = load_prop(prop_id)
        for m in re.findall(r"\b((?:Lib|Model|Proofs|Oracle)\.\w+)", getattr(mod, "COQ_IMPORTS", "")):
            t = m.replace(".", "/") + ".vo"
            if t not in targets and os.path.exists(os.path.join(COQ, m.replace(".", "/") + ".v")):
                targets.append(t)
    except Exception:
        pass
    try:
        rc, o, e = sh(["make", "-j%d" % NCPU] + targets, cwd=COQ, timeout=timeout)
    except subprocess.TimeoutExpired:
        res["log"] = "coq build timed out"
        return res
    res["log"] = (o + e)[-6000:]
    if rc != 0:
        return res
    reports = parse_assumptions(o, printed)
    if len(reports) != len(printed):
        res["log"] += "\ncould not match Print Assumptions output (%d reports, %d commands)" % (len(reports), len(printed))
        return res
    by_name = dict(zip(printed, reports))
    allok = True
    for t in thms:
        if t not in by_name:
            res["theorems"].append({"name": t, "axioms": None, "ok": False, "why": "no Print Assumptions"})
            allok = False
            continue
        ax = by_name[t]
        bad = [a for a in ax if a not in STDLIB_AXIOMS and a.split(".")[-1] not in STDLIB_AXIOMS]
        ok = not bad
        res["theorems"].append({"name": t, "axioms": ax, "ok": ok})
        if ok:
            res["discharged"] += 1
        else:
            allok = False
    lint = lint_coq()
    if lint:
        res["log"] += "\nforbidden vernacular:\n" + "\n".join(lint)
        allok = False
        res["discharged"] = 0
    res["ok"] = allok and res["obligations"] > 0
    return res


def coqchk(prop_id, timeout=1500):
    try:
        rc, o, e = sh(["coqchk", "-silent", "-o", "-Q", ".", "PV", "PV.Properties.%s" % prop_id], cwd=COQ, timeout=timeout)
    except subprocess.TimeoutExpired:
        return False, "coqchk timed out"
    return rc == 0, (o + e)[-3000:]


def coq_eval(imports, exprs, tag, timeout=900, shard=250):
    """Evaluate Gallina expressions of type `string` with vm_compute; returns list of strings
    (None where evaluation failed).  `exprs` = list of str."""
    os.makedirs(WORK, exist_ok=True)
    wd = os.path.join(WORK, "eval_%s_%d" % (tag, os.getpid()))
    shutil.rmtree(wd, ignore_errors=True)
    os.makedirs(wd)
    shards = [list(range(i, min(i + shard, len(exprs)))) for i in range(0, len(exprs), shard)]
    results = [None] * len(exprs)
    errors = []
    soft = []

    def run(si):
        idxs = shards[si]
        name = "cases%d" % si
        path = os.path.join(wd, name + ".v")
        with open(path, "w") as f:
            f.write("From Coq Require Import List NArith ZArith String Bool Arith.\nFrom PV Require Import Lib.Show.\n")
            f.write(imports + "\nImport ListNotations.\nSet Printing Width 10000000.\nSet Printing Depth 10000000.\n")
            for i in idxs:
                f.write('Eval vm_compute in ("@@%d "%%string ++ (%s))%%string.\n' % (i, exprs[i]))
        # coqtop (not coqc) so that one ill-formed expression does not abort the whole shard
        try:
            rc, o, e = sh(["coqtop", "-quiet", "-w", "-notation-overridden", "-Q", COQ, "PV"], cwd=wd, timeout=timeout,
                          input=open(path).read())
        except subprocess.TimeoutExpired:
            errors.append("shard %d timed out" % si)
            return
        for m in re.finditer(r'= "@@(\d+) ((?:[^"]|"")*)"', o):
            results[int(m.group(1))] = m.group(2).replace('""', '"')
        if any(results[i] is None for i in idxs):
            m = re.search(r"Error:[^\n]*(\n[^\n]*){0,3}", o + e)
            soft.append("shard %d: %s" % (si, m.group(0)[:400] if m else (o + e)[-400:]))

    with ThreadPoolExecutor(max_workers=NCPU) as ex:
        list(ex.map(run, range(len(shards))))
    if not errors and not soft:
        shutil.rmtree(wd, ignore_errors=True)
    if soft:
        log("coq evaluation: some expressions failed:", soft[:3])
    return results, errors


# ------------------------------------------------------------------------------------------------
# Rust side
# ------------------------------------------------------------------------------------------------

def target_dir():
    if REPO == "/repo":
        return os.path.join(ROOT, "target")
    return os.path.join(ROOT, "target-" + hashlib.sha1(REPO.encode()).hexdigest()[:8])


def render_harness():
    """Render harness/**/Cargo.toml from Cargo.toml.in (path deps point at $VERIF_REPO)."""
    members = []
    for d in sorted(os.listdir(HARNESS)):
        tin = os.path.join(HARNESS, d, "Cargo.toml.in")
        if os.path.exists(tin):
            members.append(d)
            txt = open(tin).read().replace("@REPO@", REPO)
            out = os.path.join(HARNESS, d, "Cargo.toml")
            if not os.path.exists(out) or open(out).read() != txt:
                open(out, "w").write(txt)
    ws = "[workspace]\nresolver = \"2\"\nmembers = [%s]\n\n[profile.dev]\nopt-level = 1\ndebug = false\nincremental = false\n\n[profile.dev.package.\"*\"]\nopt-level = 1\n" % ", ".join('"%s"' % m for m in members)
    out = os.path.join(HARNESS, "Cargo.toml")
    if not os.path.exists(out) or open(out).read() != ws:
        open(out, "w").write(ws)
    lock = os.path.join(HARNESS, "Cargo.lock")
    if not os.path.exists(lock):
        shutil.copy(os.path.join(REPO, "Cargo.lock"), lock)
    cfgd = os.path.join(HARNESS, ".cargo")
    os.makedirs(cfgd, exist_ok=True)
    cfg = "[net]\noffline = true\n"
    cp = os.path.join(cfgd, "config.toml")
    if not os.path.exists(cp) or open(cp).read() != cfg:
        open(cp, "w").write(cfg)
    return members


def cargo_env():
    return {"CARGO_NET_OFFLINE": "true", "RUSTFLAGS": "--cfg %s -Awarnings" % GUARD,
            "CARGO_TARGET_DIR": target_dir()}


def harness_build(pkgs, timeout=int(os.environ.get("VERIF_BUILD_TIMEOUT", "7200"))):
    """Build harness package(s) against the current working tree of $VERIF_REPO. Returns (ok, log)."""
    render_harness()
    if isinstance(pkgs, str):
        pkgs = [pkgs]
    cmd = ["cargo", "build", "--offline", "-j", os.environ.get("VERIF_CARGO_JOBS", str(NCPU))]
    for p in pkgs:
        cmd += ["-p", p]
    try:
        rc, o, e = sh(cmd, cwd=HARNESS, env=cargo_env(), timeout=timeout)
    except subprocess.TimeoutExpired:
        return False, "cargo build timed out"
    return rc == 0, (o + e)[-8000:]


def harness_bin(pkg):
    return os.path.join(target_dir(), "debug", pkg)


def run_harness(pkg, args, lines, timeout=600, procs=None, env=None):
    """Feed `lines` ("<idx> <payload>") to the harness binary on stdin, split over processes.
    Each output line must be "<idx> <result>".  Returns (dict idx->result, errors)."""
    procs = procs or min(NCPU, max(1, len(lines) // 50))
    chunks = [lines[i::procs] for i in range(procs)]
    results, errors = {}, []

    def run(ch):
        if not ch:
            return
        try:
            rc, o, e = sh([harness_bin(pkg)] + list(args), input="\n".join(ch) + "\n", timeout=timeout, env=env)
        except subprocess.TimeoutExpired:
            errors.append("harness timed out")
            return
        for l in o.split("\n"):
            if not l.strip():
                continue
            k, _, v = l.partition(" ")
            if k.isdigit():
                results[int(k)] = v.rstrip("\n")
        if rc != 0:
            errors.append("harness exit %d: %s" % (rc, e[-1500:]))

    with ThreadPoolExecutor(max_workers=procs) as ex:
        list(ex.map(run, chunks))
    return results, errors


# ------------------------------------------------------------------------------------------------
# Known findings, evidence, decision
# ------------------------------------------------------------------------------------------------

def known_findings(prop_id=None):
    """Findings are committed one per file under findings/ (never written at run time)."""
    d = os.path.join(ROOT, "findings")
    out = []
    if os.path.isdir(d):
        for f in sorted(os.listdir(d)):
            if f.endswith(".json"):
                j = json.load(open(os.path.join(d, f)))
                for x in (j if isinstance(j, list) else [j]):
                    if prop_id is None or x["property"] == prop_id:
                        out.append(x)
    return out


def write_evidence(prop_id, ev):
    os.makedirs(EVIDENCE, exist_ok=True)
    with open(os.path.join(EVIDENCE, prop_id + ".json"), "w") as f:
        json.dump(ev, f, indent=1, sort_keys=True)
        f.write("\n")


def write_replay(prop_id, seed, obj):
    os.makedirs(REPLAY, exist_ok=True)
    p = os.path.join(REPLAY, "%s-%s-%d.json" % (prop_id, seed, int(time.time() * 1000) % 100000000))
    with open(p, "w") as f:
        json.dump(obj, f, indent=1, sort_keys=True)
        f.write("\n")
    return p


def load_prop(prop_id):
    return importlib.import_module("vlib.props." + prop_id.lower())


class Outcome:
    """Evaluation of a list of cases on implementation, model and oracle."""

    def __init__(self):
        self.cases = []
        self.impl = {}
        self.model = {}
        self.oracle = {}
        self.errors = []


def evaluate(prop, cases, tag, need_model=True):
    """Run cases on impl (harness), then model+oracle in Coq."""
    oc = Outcome()
    oc.cases = cases
    lines = ["%d %s" % (i, prop.harness_line(c)) for i, c in enumerate(cases)]
    impl, errs = run_harness(prop.HARNESS_PKG, getattr(prop, "HARNESS_ARGS", [prop.ID.lower()]), lines,
                             timeout=getattr(prop, "HARNESS_TIMEOUT", 900), procs=getattr(prop, "HARNESS_PROCS", None))
    oc.errors += errs
    oc.impl = impl
    exprs = []
    for i, c in enumerate(cases):
        io = impl.get(i)
        if io is None:
            exprs += ['"NOIMPL"', '"NOIMPL"']
            continue
        try:
            m = prop.coq_model(c) if need_model else '""'
        except Exception:
            m = '"NOMODEL"'
        try:
            o = prop.coq_oracle(c, io)
        except Exception:  # unparsable implementation output: the oracle cannot hold
            o = "false"
        exprs.append(m)
        exprs.append('if (%s) then "OK" else "FAIL"' % o)
    res, errs = coq_eval(prop.COQ_IMPORTS, exprs, tag, shard=getattr(prop, "COQ_SHARD", 400), timeout=getattr(prop, "COQ_TIMEOUT", 1800))
    oc.errors += errs
    for i in range(len(cases)):
        if i not in impl:
            continue
        m, o = res[2 * i], res[2 * i + 1]
        if m is not None:
            oc.model[i] = m
        # an oracle expression that does not even evaluate (ill-formed observation) counts as failed
        oc.oracle[i] = (o == "OK")
    return oc


def agree(prop, case, impl, model):
    f = getattr(prop, "agree", None)
    return f(case, impl, model) if f else impl == model


def shrink_case(prop, case, failing, budget=60):
    """Greedy shrinking with prop.shrink(case) -> iterable of smaller cases; `failing(case)` re-runs."""
    sh_f = getattr(prop, "shrink", None)
    if not sh_f:
        return case
    t0 = time.time()
    cur = case
    progress = True
    while progress and time.time() - t0 < budget:
        progress = False
        cands = list(sh_f(cur))[:64]
        if not cands:
            break
        oc = evaluate(prop, cands, "shrink", need_model=False)
        for i, c in enumerate(cands):
            if failing(oc, i):
                cur = c
                progress = True
                break
    return cur


def main_check(prop_id, tier, seed, replay=None):
    t0 = time.time()
    prop = load_prop(prop_id)
    rng = random.Random(seed)
    ev = {"property_id": prop_id, "tier": tier, "seed": seed, "level": "proof", "violations": 0,
          "coverage": {}, "assumptions": list(getattr(prop, "ASSUMPTIONS", [])), "wall_s": 0.0}
    violations = []   # (kind, replay path, found_input)
    known_lines = []

    # (T) proofs
    pr = coq_proofs(prop_id)
    chk_ok, chk_log = True, ""
    if tier == "thorough" and pr["ok"] and not replay:
        chk_ok, chk_log = coqchk(prop_id)
    proofs_ok = pr["ok"] and chk_ok
    if not proofs_ok:
        log("PROOFS BROKEN for %s:\n%s\n%s" % (prop_id, pr["log"][-3000:], chk_log))

    # harness
    hb_ok, hb_log = harness_build(prop.HARNESS_PKG)
    if not hb_ok:
        log("HARNESS BUILD FAILED:\n" + hb_log)
        rp = write_replay(prop_id, seed, {"property": prop_id, "broken": "harness build against current tree failed (correspondence cannot run)",
                                          "log": hb_log[-4000:]})
        print("VIOLATION property=%s replay=%s no-failing-input-found" % (prop_id, rp))
        ev["violations"] = 1
        ev["coverage"] = proof_cov(prop, pr, 0, 0, [], "harness build failed")
        ev["wall_s"] = round(time.time() - t0, 2)
        write_evidence(prop_id, ev)
        return 1

    # cases: corpus first, then generated
    if replay:
        rj = json.load(open(replay))
        cases = [rj["case"]] if "case" in rj else []
    else:
        cases = []
        cp = os.path.join(ROOT, "corpus", prop_id + ".jsonl")
        if os.path.exists(cp):
            cases += [json.loads(l) for l in open(cp) if l.strip()]
        for f in known_findings(prop_id):
            if "witness" in f and f["witness"] is not None:
                cases.append(f["witness"])
        ncorpus = len(cases)
        cases += list(prop.gen(tier, rng))
    oc = evaluate(prop, cases, prop_id.lower())
    if oc.errors:
        log("evaluation errors:", oc.errors[:5])

    open_known = {f["id"]: f for f in known_findings(prop_id) if f.get("status") == "open"}
    disagreements, oracle_fail, known_hit = [], [], {}
    missing = []
    for i, c in enumerate(cases):
        if i not in oc.impl or i not in oc.model:
            missing.append(i)
            continue
        if not oc.oracle[i]:
            kid = prop.known(c, oc.impl[i]) if hasattr(prop, "known") else None
            if kid and kid in open_known:
                known_hit.setdefault(kid, i)
            else:
                oracle_fail.append(i)
        if not agree(prop, c, oc.impl[i], oc.model[i]):
            disagreements.append(i)

    if replay:
        for i, c in enumerate(cases):
            print("case   :", json.dumps(c))
            print("impl   :", oc.impl.get(i))
            print("model  :", oc.model.get(i))
            print("oracle :", oc.oracle.get(i))
        bad = bool(oracle_fail or disagreements or missing)
        if bad:
            print("VIOLATION property=%s replay=%s%s" % (prop_id, os.path.abspath(replay), "" if oracle_fail else " no-failing-input-found"))
        return 1 if bad else 0

    def failing(o, i):
        if i not in o.oracle or o.oracle[i]:
            return False
        kid = prop.known(o.cases[i], o.impl[i]) if hasattr(prop, "known") else None
        return not (kid and kid in open_known)

    found = None
    if oracle_fail:
        found = shrink_case(prop, cases[oracle_fail[0]], failing)
    broken = []
    if not proofs_ok:
        bad_thms = [t["name"] for t in pr["theorems"] if not t["ok"]] or ["build of Properties/%s.vo" % prop_id]
        broken.append("proof obligations no longer check: " + ", ".join(bad_thms))
    if disagreements:
        broken.append("correspondence model<->implementation differs on %d case(s)" % len(disagreements))
    if missing or oc.errors:
        broken.append("evaluation incomplete: %d case(s) without result; errors: %s" % (len(missing), "; ".join(oc.errors)[:600]))
    if broken and found is None and tier == "quick" and not getattr(prop, "NO_ESCALATE", False):
        # search: thorough generators, oracle on the implementation only
        log("searching for a failing input (thorough generators)...")
        extra = list(prop.gen("thorough", random.Random(seed + 1)))[: getattr(prop, "SEARCH_LIMIT", 4000)]
        so = evaluate(prop, extra, prop_id.lower() + "_search", need_model=False)
        for i in range(len(extra)):
            if failing(so, i):
                found = shrink_case(prop, extra[i], failing)
                break

    nontriv = set()
    for i, c in enumerate(cases):
        if i in oc.impl and prop.nontrivial(c, oc.impl[i]):
            nontriv.add(json.dumps(c, sort_keys=True))
    samples = []
    for i in list(range(min(2, len(cases)))) + ([len(cases) - 1] if len(cases) > 2 else []):
        samples.append({"case": cases[i], "impl": oc.impl.get(i), "model": oc.model.get(i), "oracle": oc.oracle.get(i)})

    rc = 0
    if found is not None:
        one = evaluate(prop, [found], prop_id.lower() + "_found")
        rp = write_replay(prop_id, seed, {"property": prop_id, "case": found, "impl": one.impl.get(0), "model": one.model.get(0),
                                          "oracle_on_impl": one.oracle.get(0), "broken": broken,
                                          "how": "./check %s --replay <this file>" % prop_id})
        print("VIOLATION property=%s replay=%s" % (prop_id, rp))
        rc = 1
    elif broken:
        ex = None
        if disagreements:
            i = disagreements[0]
            ex = {"case": cases[i], "impl": oc.impl.get(i), "model": oc.model.get(i), "oracle_on_impl": oc.oracle.get(i)}
        rp = write_replay(prop_id, seed, {"property": prop_id, "broken": broken, "first_disagreement": ex,
                                          "case": ex["case"] if ex else None,
                                          "theorems": pr["theorems"], "proof_log": pr["log"][-2000:] if not proofs_ok else ""})
        print("VIOLATION property=%s replay=%s no-failing-input-found" % (prop_id, rp))
        rc = 1
    for kid, i in sorted(known_hit.items()):
        print("KNOWN-FINDING: property=%s %s: %s" % (prop_id, kid, open_known[kid]["what"]))

    gen_floor = getattr(prop, "NONTRIVIAL_FLOOR", 2)
    if rc == 0 and len(nontriv) < gen_floor:
        rp = write_replay(prop_id, seed, {"property": prop_id, "broken": ["generator degenerate: %d distinct non-trivial cases" % len(nontriv)]})
        print("VIOLATION property=%s replay=%s no-failing-input-found" % (prop_id, rp))
        rc = 1

    ev["violations"] = 1 if rc else 0
    ev["coverage"] = proof_cov(prop, pr, len(cases), len(nontriv), samples, None)
    ev["coverage"]["traces_validated_against_impl"] = len(cases) - len(disagreements) - len(missing)
    ev["coverage"]["disagreements"] = len(disagreements)
    ev["coverage"]["oracle_failures_on_impl"] = len(oracle_fail)
    ev["coverage"]["known_finding_hits"] = sorted(known_hit)
    ev["coverage"]["corpus_cases"] = ncorpus
    ev["coverage"]["coqchk"] = ("ok" if chk_ok else "failed") if tier == "thorough" else "not run in quick tier"
    if hasattr(prop, "distribution"):
        ev["coverage"]["input_distribution"] = prop.distribution(cases, oc.impl)
    ev["wall_s"] = round(time.time() - t0, 2)
    write_evidence(prop_id, ev)
    log("%s %s: %d cases, %d non-trivial, %d disagreements, %d oracle failures, %d known, proofs %s, %.1fs" % (
        prop_id, tier, len(cases), len(nontriv), len(disagreements), len(oracle_fail), len(known_hit),
        "ok" if proofs_ok else "BROKEN", time.time() - t0))
    return rc


def proof_cov(prop, pr, evaluations, nontriv, samples, note):
    axioms = sorted({a for t in pr["theorems"] for a in (t["axioms"] or [])})
    cov = {
        "obligations": pr["obligations"],
        "discharged": pr["discharged"],
        "checker_cmd": pr["cmd"],
        "trusted_base": [
            "Coq 8.16.1 kernel (coqc full .vo build; vm_compute used for case evaluation and finite witnesses; no native_compute)",
            "axioms under Print Assumptions: " + (", ".join(axioms) if axioms else "none (closed under the global context)"),
            "hand-written Gallina model; tie to code = correspondence run (differential, bounded by the generators) against %s working tree" % REPO,
            "Rust harness + python driver (case generation, canonicalisation, diff)",
        ] + list(getattr(prop, "TRUSTED", [])),
        "theorems": pr["theorems"],
        "evaluations": evaluations,
        "distinct_nontrivial": nontriv,
        "rule": getattr(prop, "RULE", ""),
        "samples": samples,
    }
    if note:
        cov["note"] = note
    return cov
