#!/usr/bin/env python3
"""usage: tools/baseline.py <repo dir> — run the repository's pinned test suite (guard OFF) there and
compare with /root/.vp/BASELINE.json stable_pass. Exit 0 iff every stable test passed."""
import json, os, subprocess, sys, xml.etree.ElementTree as ET
repo = os.path.abspath(sys.argv[1])
touched = None
if "--touched" in sys.argv:
    touched = [c for c in sys.argv[sys.argv.index("--touched") + 1].split(",") if c]
env = dict(os.environ, CARGO_NET_OFFLINE="true")
env.pop("RUSTFLAGS", None)
junit = os.path.join(repo, "target", "nextest", "pb", "junit.xml")
if os.path.exists(junit):
    os.remove(junit)
scope = ["--workspace"]
closure = None
if touched:
    # a source change in crate X can only affect the tests of X and of the workspace crates that depend on X
    md = json.loads(subprocess.run(["cargo", "metadata", "--offline", "--format-version", "1", "--no-deps"], cwd=repo, env=env,
                                   capture_output=True, text=True).stdout)
    deps = {pk["name"]: {d["name"] for d in pk["dependencies"]} for pk in md["packages"]}
    closure = set(touched)
    changed = True
    while changed:
        changed = False
        for n, ds in deps.items():
            if n not in closure and ds & closure:
                closure.add(n)
                changed = True
    scope = []
    for c in sorted(closure):
        scope += ["-p", c]
    print("scope: tests of %s" % ", ".join(sorted(closure)))
p = subprocess.run(["cargo", "nextest", "run"] + scope + ["--no-fail-fast", "--offline", "--tool-config-file",
                    "pb:/w/lib/nextest.toml", "--profile", "pb", "--test-threads", "8"], cwd=repo, env=env,
                   capture_output=True, text=True)
base = json.load(open("/root/.vp/BASELINE.json"))["stable_pass"]
if closure is not None:
    base = [t for t in base if t.split("::", 1)[0] in closure]
if not os.path.exists(junit):
    print("no junit output; build failed?\n" + p.stderr[-3000:])
    sys.exit(2)
passed, failed = set(), set()
for tc in ET.parse(junit).getroot().iter("testcase"):
    tid = (tc.get("classname") or "") + "::" + (tc.get("name") or "")
    if tc.find("failure") is not None or tc.find("error") is not None or tc.find("flakyFailure") is not None or tc.find("rerunFailure") is not None:
        failed.add(tid)
    elif tc.find("skipped") is None:
        passed.add(tid)
passed -= failed
missing = [t for t in base if t not in passed]
# Tests with wall-clock windows / network timing fail sporadically on a loaded machine (observed on the
# pristine tree too). A stable test that did not pass is re-run alone, up to 4 times; passing once counts.
still = []
for t in missing:
    pkg, name = t.split("::", 1)
    crate = pkg.split("::")[0]
    ok = False
    for _ in range(4):
        q = subprocess.run(["cargo", "nextest", "run", "--offline", "-p", crate, "-E", "test(=%s)" % name.split("::", 0)[0] if False else "test(%s)" % name.split("::")[-1],
                            "--tool-config-file", "pb:/w/lib/nextest.toml", "--profile", "pb"], cwd=repo, env=env, capture_output=True, text=True)
        if q.returncode == 0:
            ok = True
            break
    print("  retried alone: %s -> %s" % (t, "passes" if ok else "FAILS"))
    if not ok:
        still.append(t)
missing = still
print("passed %d, failed %d, stable baseline %d, stable not passing %d" % (len(passed), len(failed), len(base), len(missing)))
for t in missing:
    print("  NOT PASSING:", t)
sys.exit(1 if missing else 0)
