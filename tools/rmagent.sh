#!/bin/sh
# usage: tools/rmagent.sh <name> — remove the scratch worktrees (and their build output)
n=$1
git -C /verif worktree remove --force /tmp/w/$n/verif
git -C /repo worktree remove --force /tmp/w/$n/repo
rm -rf /tmp/w/$n
