#!/bin/sh
# usage: tools/run_all.sh [tier] [ids...] — run registered checks sequentially, summary to stdout
tier=${1:-quick}; shift
cd /verif
ids="$@"
[ -z "$ids" ] && ids=$(python3 -c "import json;print(' '.join(c['property_id'] for c in json.load(open('MANIFEST.json'))['checks']))")
for i in $ids; do
  s=$(date +%s)
  ./check $i --tier $tier > /tmp/runall_$i.out 2> /tmp/runall_$i.err; rc=$?
  e=$(date +%s)
  echo "$i rc=$rc $((e-s))s $(grep -c VIOLATION /tmp/runall_$i.out) viol $(grep -c KNOWN-FINDING /tmp/runall_$i.out) known | $(tail -1 /tmp/runall_$i.err)"
done
