#!/usr/bin/env python3
"""usage: tools/seed_pipeline.py <seed dir>...   (serialised by a lock on the scratch worktree)
For each independently written breaking change (patch.diff, demo.diff, meta.json):
  1. bring the scratch worktree /tmp/seedchk/repo to /repo's current main;
  2. tools/confirm_seeded.py: demo passes clean / fails patched, pinned suite passes patched;
  3. if confirmed: run the property's quick check against the patched scratch tree
     (VERIF_REPO=/tmp/seedchk/repo) and record whether it raised VIOLATION (with an input or
     no-failing-input-found);
  4. copy everything to /verif/seeded/<id>-<n>/ (patch.diff, demo.diff, meta.json, confirm.json, check.json).
"""
import fcntl, json, os, shutil, subprocess, sys, time

ROOT = os.path.dirname(os.path.dirname(os.path.abspath(__file__)))
SLOT = os.environ.get("SEED_SLOT", "")
BASE = "/tmp/seedchk" + SLOT
WT = BASE + "/repo"
VWT = BASE + "/verif"   # separate /verif worktree: harness manifests are rendered per VERIF_REPO
os.makedirs(BASE, exist_ok=True)
lock = open(BASE + "/lock", "w")
fcntl.flock(lock, fcntl.LOCK_EX)


def sh(cmd, cwd=None, env=None, timeout=None):
    e = dict(os.environ)
    if env:
        e.update(env)
    p = subprocess.run(cmd, shell=True, cwd=cwd, env=e, capture_output=True, text=True, timeout=timeout)
    return p.returncode, p.stdout, p.stderr


if not os.path.isdir(WT):
    sh("git -C /repo worktree add -q --detach %s main" % WT)
if not os.path.isdir(VWT):
    sh("git -C %s worktree add -q --detach %s main" % (ROOT, VWT))
for seed in sys.argv[1:]:
    seed = os.path.abspath(seed)
    name = os.path.basename(seed)
    meta = json.load(open(os.path.join(seed, "meta.json")))
    prop = meta["property"]
    t0 = time.time()
    sh("git reset -q --hard && git clean -fdq -e target -e Cargo.lock && git checkout -q --detach main", cwd=WT)
    if not os.path.exists(os.path.join(WT, "Cargo.lock")):
        shutil.copy("/repo/Cargo.lock", os.path.join(WT, "Cargo.lock"))
    cj = os.path.join(seed, "confirm.json")
    if os.path.exists(cj) and json.load(open(cj)).get("confirmed"):
        confirmed = True      # already confirmed by an earlier run
    else:
        rc, o, e = sh("python3 %s/tools/confirm_seeded.py %s %s" % (ROOT, seed, WT))
        confirmed = rc == 0
    check = {"ran": False}
    if confirmed and os.path.exists(os.path.join(ROOT, "vlib", "props", prop.lower() + ".py")):
        sh("git reset -q --hard && git clean -fdq -e target -e Cargo.lock", cwd=WT)
        r2, o2, _ = sh("git apply --whitespace=nowarn %s/patch.diff || git apply --3way --whitespace=nowarn %s/patch.diff" % (seed, seed), cwd=WT)
        sh("git reset -q --hard && git checkout -q --detach main", cwd=VWT)
        ev_backup = None
        try:
            rc3, o3, e3 = sh("./check %s --tier quick" % prop, cwd=VWT, env={"VERIF_REPO": WT}, timeout=4 * 3600)
        except subprocess.TimeoutExpired:
            rc3, o3, e3 = 124, "", "timeout"
        viol = [l for l in o3.split("\n") if l.startswith("VIOLATION")]
        replay = None
        if viol:
            for tok in viol[0].split():
                if tok.startswith("replay="):
                    try:
                        replay = json.load(open(tok[7:]))
                    except Exception:
                        replay = None
        check = {"ran": True, "exit": rc3, "violation_lines": viol, "caught": bool(viol) and rc3 == 1,
                 "with_failing_input": bool(viol) and "no-failing-input-found" not in viol[0],
                 "summary": e3.strip().split("\n")[-1][-400:] if e3.strip() else "", "replay": replay}
        if ev_backup is not None:   # evidence must come from /repo runs only
            open(ev, "w").write(ev_backup)
        sh("git reset -q --hard && git clean -fdq -e target -e Cargo.lock", cwd=WT)
    out = os.path.join(ROOT, "seeded", name)
    os.makedirs(out, exist_ok=True)
    for f in ("patch.diff", "demo.diff", "meta.json", "confirm.json"):
        if os.path.exists(os.path.join(seed, f)):
            shutil.copy(os.path.join(seed, f), os.path.join(out, f))
    json.dump(check, open(os.path.join(out, "check.json"), "w"), indent=1)
    print("%s prop=%s confirmed=%s check_ran=%s caught=%s with_input=%s %.0fs" % (
        name, prop, confirmed, check.get("ran"), check.get("caught"), check.get("with_failing_input"), time.time() - t0), flush=True)
