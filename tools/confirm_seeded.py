#!/usr/bin/env python3
"""usage: tools/confirm_seeded.py <seed dir with patch.diff demo.diff meta.json> <scratch repo worktree>
Confirms a seeded change independently: demo passes on the clean tree, fails with the patch; the
patched tree compiles and passes the pinned test suite. Writes <seed dir>/confirm.json; exit 0 iff all hold.
The scratch worktree must be clean (git checkout -- . && git clean -fdq -e target is run first and last)."""
import json, os, subprocess, sys, time
seed, wt = os.path.abspath(sys.argv[1]), os.path.abspath(sys.argv[2])
meta = json.load(open(os.path.join(seed, "meta.json")))
env = dict(os.environ, CARGO_NET_OFFLINE="true")
env.pop("RUSTFLAGS", None)
def sh(cmd, **kw):
    p = subprocess.run(cmd, shell=True, cwd=wt, env=env, capture_output=True, text=True, **kw)
    return p.returncode, p.stdout[-3000:] + "\n=== stderr ===\n" + "\n".join(l for l in p.stderr.split("\n") if not l.startswith(("warning", "   ", "    |", "  -->", "     |")) and l.strip())[-3000:]
def clean():
    sh("git reset -q --hard && git clean -fdq -e target -e Cargo.lock")
res = {"seed": os.path.basename(seed), "property": meta.get("property"), "at": time.strftime("%F %T")}
clean()
demo_cmd = meta["demo_cmd"]
if "--offline" not in demo_cmd:
    demo_cmd = demo_cmd.replace("cargo test", "cargo test --offline", 1)
def apply_union(diff):
    """git apply; if the base moved (hooks/fixes appended lines at the same place, typically the end of a
    file) fall back to a 3-way apply and keep BOTH sides of every conflict (what merge=union does)."""
    rc, o = sh("git apply --whitespace=nowarn %s" % diff)
    if rc == 0:
        return 0, o
    rc, o = sh("git apply --3way --whitespace=nowarn %s" % diff)
    rc2, st = sh("git status --porcelain")
    conflicted = [l[3:].strip() for l in st.split("\n") if l[:2] in ("UU", "AA")]
    for f in conflicted:
        fp = os.path.join(wt, f)
        lines = [l for l in open(fp).read().split("\n") if not (l.startswith("<<<<<<< ") or l == "=======" or l.startswith(">>>>>>> "))]
        open(fp, "w").write("\n".join(lines))
    sh("git reset -q")
    res.setdefault("union_resolved", []).extend(conflicted)
    rc3, st = sh("git status --porcelain")
    return (0 if (conflicted or rc == 0) else 1), o
rc, o = apply_union("%s/demo.diff" % seed)
res["demo_applies"] = rc == 0
rc, o = sh(demo_cmd, timeout=3600)
res["demo_passes_without_patch"] = rc == 0
res["demo_without_log"] = o[-600:]
def apply_patch():
    rc, o = sh("git apply --whitespace=nowarn %s/patch.diff" % seed)
    if rc != 0:  # base moved (later fix commits): try a 3-way merge of the patch
        rc, o = sh("git apply --3way --whitespace=nowarn %s/patch.diff" % seed)
        res["patch_needed_3way"] = True
        if "with conflicts" in o or "conflict" in o.lower():
            rc = 1
            sh("git reset -q --hard")
    return rc, o
rc, o = apply_patch()
res["patch_applies"] = rc == 0
rc, o = sh(demo_cmd, timeout=3600)
res["demo_fails_with_patch"] = rc != 0 and "could not compile" not in o and ("test failed" in o or "FAILED" in o or "panicked" in o)
res["demo_with_log"] = o[-900:]
# the suite on the patched tree, without the demo
clean()
apply_patch()
# crates touched by the patch (from the diff itself): the suite is run for them and every workspace crate depending on them
touched = sorted({l.split()[-1].split("/")[1] for l in open(os.path.join(seed, "patch.diff")) if l.startswith("+++ b/")})
res["suite_scope_touched"] = touched
p = subprocess.run([sys.executable, os.path.join(os.path.dirname(os.path.abspath(__file__)), "baseline.py"), wt, "--touched", ",".join(touched)], capture_output=True, text=True)
res["suite_passes_with_patch"] = p.returncode == 0
res["suite_log"] = p.stdout[-1500:]
clean()
res["confirmed"] = all(res.get(k) for k in ("demo_applies", "demo_passes_without_patch", "patch_applies", "demo_fails_with_patch", "suite_passes_with_patch"))
json.dump(res, open(os.path.join(seed, "confirm.json"), "w"), indent=1)
print(json.dumps({k: v for k, v in res.items() if not k.endswith("log")}))
sys.exit(0 if res["confirmed"] else 1)
