#!/usr/bin/env python3
"""Print a markdown table of /verif/seeded/*: what each independently written change does and whether the check caught it."""
import json, os, sys
root = os.path.join(os.path.dirname(os.path.dirname(os.path.abspath(__file__))), "seeded")
rows = []
for d in sorted(os.listdir(root)):
    p = os.path.join(root, d)
    if not os.path.isdir(p) or not os.path.exists(os.path.join(p, "meta.json")):
        continue
    m = json.load(open(os.path.join(p, "meta.json")))
    c = json.load(open(os.path.join(p, "confirm.json"))) if os.path.exists(os.path.join(p, "confirm.json")) else {}
    k = json.load(open(os.path.join(p, "check.json"))) if os.path.exists(os.path.join(p, "check.json")) else {}
    if not c.get("confirmed"):
        res = "not kept (not confirmed)"
    elif not k.get("ran"):
        res = "confirmed; check not run"
    elif k.get("caught") and k.get("with_failing_input"):
        res = "**caught**, concrete failing input"
    elif k.get("caught"):
        res = "**caught** (correspondence broke; no-failing-input-found)"
    else:
        res = "MISSED"
    if k.get("strengthened"):
        res += " — " + k["strengthened"]
    rows.append("| %s | %s | %s | %s | %s |" % (d, m.get("property"), m.get("summary", "").replace("|", "/").replace("\n", " ")[:260],
                                           m.get("needs", "").replace("|", "/").replace("\n", " ")[:220], res))
print("| seed | property | change | needs to manifest | result of `./check <property> --tier quick` on the patched tree |")
print("|---|---|---|---|---|")
print("\n".join(rows))
