#!/bin/sh
# usage: tools/mkagent.sh <name>  — create scratch worktrees of /verif and /repo for a builder agent
set -e
n=$1
mkdir -p /tmp/w/$n
git -C /verif worktree add -q -b agent-$n /tmp/w/$n/verif HEAD
git -C /repo worktree add -q -b verif-$n /tmp/w/$n/repo HEAD
cp /repo/Cargo.lock /tmp/w/$n/repo/Cargo.lock
echo "/tmp/w/$n/verif /tmp/w/$n/repo"
