#!/bin/sh
# usage: tools/merge_agent.sh <name> — merge a builder's /verif branch and cherry-pick its /repo commits
n=$1
cd /verif || exit 1
git merge --no-edit agent-$n || { echo "VERIF MERGE CONFLICT"; git status --short | grep '^\(UU\|AA\)'; }
cd /repo || exit 1
for c in $(git rev-list --reverse main..verif-$n); do
  if git cherry-pick -x $c >/dev/null 2>&1; then echo "picked $(git log -1 --format='%h %s')"; else echo "CHERRY-PICK CONFLICT at $c: $(git log -1 --format=%s $c)"; git status --short | grep '^\(UU\|AA\)'; exit 1; fi
done
